// mutgen lists first-order token mutants of the non-test Go files of a repository as JSON lines.
// It uses go/scanner only (stdlib); every mutant is (file, byte offset, length, replacement text).
//
//	go run ./tools/mutgen /repo > mutants.jsonl
package main

import (
	"encoding/json"
	"fmt"
	"go/ast"
	"go/parser"
	"go/scanner"
	"go/token"
	"os"
	"path/filepath"
	"sort"
	"strconv"
	"strings"
)

type mutant struct {
	ID   int    `json:"id"`
	File string `json:"file"`
	Line int    `json:"line"`
	Off  int    `json:"off"`
	Len  int    `json:"len"`
	Old  string `json:"old"`
	New  string `json:"new"`
	Kind string `json:"kind"`
	Src  string `json:"src"`
}

func operand(t token.Token) bool {
	switch t {
	case token.IDENT, token.INT, token.FLOAT, token.CHAR, token.STRING, token.RPAREN, token.RBRACK, token.RBRACE:
		return true
	}
	return false
}

// astMutants: structural first-order mutants - an if condition forced to false / true (a dropped or an
// unconditional special case), a statement deleted (assignment, call, ++/--), a switch case body emptied.
func astMutants(root string, files []string) {
	id := 10000
	enc := json.NewEncoder(os.Stdout)
	for _, f := range files {
		src, _ := os.ReadFile(f)
		lines := strings.Split(string(src), "\n")
		fset := token.NewFileSet()
		af, err := parser.ParseFile(fset, f, src, 0)
		if err != nil {
			panic(err)
		}
		rel, _ := filepath.Rel(root, f)
		emit := func(from, to token.Pos, new, kind string) {
			a, b := fset.Position(from), fset.Position(to)
			id++
			enc.Encode(mutant{ID: id, File: rel, Line: a.Line, Off: a.Offset, Len: b.Offset - a.Offset, Old: string(src[a.Offset:b.Offset]), New: new, Kind: kind, Src: strings.TrimSpace(lines[a.Line-1])})
		}
		ast.Inspect(af, func(n ast.Node) bool {
			switch x := n.(type) {
			case *ast.IfStmt:
				emit(x.Cond.Pos(), x.Cond.End(), "false", "if-false")
				emit(x.Cond.Pos(), x.Cond.End(), "true", "if-true")
			case *ast.BlockStmt:
				for _, st := range x.List {
					switch y := st.(type) {
					case *ast.AssignStmt:
						if y.Tok != token.DEFINE {
							emit(y.Pos(), y.End(), "", "stmt-deleted")
						}
					case *ast.ExprStmt, *ast.IncDecStmt:
						emit(y.Pos(), y.End(), "", "stmt-deleted")
					}
				}
			case *ast.CaseClause:
				if len(x.Body) > 0 {
					for _, st := range x.Body {
						switch y := st.(type) {
						case *ast.AssignStmt:
							if y.Tok != token.DEFINE {
								emit(y.Pos(), y.End(), "", "stmt-deleted")
							}
						case *ast.ExprStmt, *ast.IncDecStmt:
							emit(y.Pos(), y.End(), "", "stmt-deleted")
						}
					}
				}
			case *ast.ForStmt:
				if x.Cond != nil {
					emit(x.Cond.Pos(), x.Cond.End(), "false", "loop-skipped")
				}
			}
			return true
		})
	}
	fmt.Fprintln(os.Stderr, id-10000, "ast mutants")
}

func main() {
	root := os.Args[1]
	var files []string
	filepath.Walk(root, func(p string, fi os.FileInfo, err error) error {
		if err != nil {
			return nil
		}
		if fi.IsDir() && (fi.Name() == ".git" || fi.Name() == "testdata") {
			return filepath.SkipDir
		}
		if strings.HasSuffix(p, ".go") && !strings.HasSuffix(p, "_test.go") {
			files = append(files, p)
		}
		return nil
	})
	sort.Strings(files)
	if len(os.Args) > 2 && os.Args[2] == "ast" {
		astMutants(root, files)
		return
	}
	id := 0
	enc := json.NewEncoder(os.Stdout)
	for _, f := range files {
		src, err := os.ReadFile(f)
		if err != nil {
			panic(err)
		}
		lines := strings.Split(string(src), "\n")
		fset := token.NewFileSet()
		file := fset.AddFile(f, fset.Base(), len(src))
		var s scanner.Scanner
		s.Init(file, src, nil, 0)
		prev := token.ILLEGAL
		rel, _ := filepath.Rel(root, f)
		emit := func(pos token.Pos, old, new, kind string) {
			p := fset.Position(pos)
			id++
			enc.Encode(mutant{ID: id, File: rel, Line: p.Line, Off: p.Offset, Len: len(old), Old: old, New: new, Kind: kind, Src: strings.TrimSpace(lines[p.Line-1])})
		}
		for {
			pos, tok, lit := s.Scan()
			if tok == token.EOF {
				break
			}
			bin := operand(prev)
			switch tok {
			case token.LSS:
				emit(pos, "<", "<=", "rel-boundary")
				emit(pos, "<", ">=", "rel-negate")
			case token.LEQ:
				emit(pos, "<=", "<", "rel-boundary")
				emit(pos, "<=", ">", "rel-negate")
			case token.GTR:
				emit(pos, ">", ">=", "rel-boundary")
				emit(pos, ">", "<=", "rel-negate")
			case token.GEQ:
				emit(pos, ">=", ">", "rel-boundary")
				emit(pos, ">=", "<", "rel-negate")
			case token.EQL:
				emit(pos, "==", "!=", "rel-negate")
			case token.NEQ:
				emit(pos, "!=", "==", "rel-negate")
			case token.LAND:
				emit(pos, "&&", "||", "logic")
			case token.LOR:
				emit(pos, "||", "&&", "logic")
			case token.ADD:
				if bin {
					emit(pos, "+", "-", "arith")
				}
			case token.SUB:
				if bin {
					emit(pos, "-", "+", "arith")
				} else {
					emit(pos, "-", "+", "unary-minus")
				}
			case token.MUL:
				if bin && prev != token.RBRACK { // []*T
					emit(pos, "*", "/", "arith")
				}
			case token.QUO:
				emit(pos, "/", "*", "arith")
			case token.ADD_ASSIGN:
				emit(pos, "+=", "-=", "arith")
			case token.SUB_ASSIGN:
				emit(pos, "-=", "+=", "arith")
			case token.INC:
				emit(pos, "++", "--", "incdec")
			case token.DEC:
				emit(pos, "--", "++", "incdec")
			case token.NOT:
				emit(pos, "!", "", "not-removed")
			case token.BREAK:
				emit(pos, "break", "continue", "flow")
			case token.CONTINUE:
				emit(pos, "continue", "break", "flow")
			case token.INT:
				if v, err := strconv.ParseInt(lit, 0, 64); err == nil {
					if v == 0 {
						emit(pos, lit, "1", "const")
					} else {
						emit(pos, lit, strconv.FormatInt(v-1, 10), "const")
						emit(pos, lit, strconv.FormatInt(v+1, 10), "const")
					}
				}
			case token.FLOAT:
				if v, err := strconv.ParseFloat(lit, 64); err == nil && v != 0 {
					emit(pos, lit, "("+lit+"*1.0000001)", "const-float")
				}
			case token.IDENT:
				switch lit {
				case "true":
					emit(pos, "true", "false", "bool")
				case "false":
					emit(pos, "false", "true", "bool")
				case "nil":
				}
			}
			prev = tok
		}
	}
	fmt.Fprintln(os.Stderr, id, "mutants")
}
