#!/usr/bin/env python3
"""Rewrites the table of seeded changes in DESIGN.md (between the SEEDED-TABLE markers) from /verif/seeded/*/meta.json."""
import glob, json, os, re
ROOT = os.path.dirname(os.path.dirname(os.path.abspath(__file__)))
rows = []
for mp in sorted(glob.glob(os.path.join(ROOT, "seeded", "*", "meta.json"))):
    m = json.load(open(mp))
    sid = m["id"]
    notes = m.get("needs_to_manifest", "")
    # first heading-free sentence of the notes as the one-line description
    desc = ""
    for line in notes.splitlines():
        line = line.strip().lstrip("#").strip()
        if len(line) > 40 and not line.lower().startswith(("seed", "notes", "change")):
            desc = line
            break
    desc = re.sub(r"\s+", " ", desc)[:230]
    caught = []
    for p, r in sorted(m.get("checks_run", {}).items()):
        if r.get("violation_lines", 0) > 0:
            caught.append("%s (%s, %ss)" % (p, r.get("tier", "quick"), r.get("wall_s", "?")))
    missed = [p for p, r in sorted(m.get("checks_run", {}).items()) if r.get("violation_lines", 0) == 0]
    rows.append("| %s | %s | %s | %s | %s |" % (sid, m.get("breaks_property", ""), desc.replace("|", "/"), ", ".join(caught) or "—", ", ".join(missed) or "—"))
table = "| id | property | what it is (from the author's notes) | caught by | run without a report |\n|----|----------|------------------------------------|-----------|---------------------|\n" + "\n".join(rows)
p = os.path.join(ROOT, "DESIGN.md")
s = open(p).read()
a, b = "<!-- SEEDED-TABLE-BEGIN -->", "<!-- SEEDED-TABLE-END -->"
if a in s and b in s:
    s = s[:s.index(a) + len(a)] + "\n" + table + "\n" + s[s.index(b):]
    open(p, "w").write(s)
print(len(rows), "rows")
