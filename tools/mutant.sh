#!/bin/bash
# usage: mutant.sh <file-in-repo> <python-regex-or-literal old> <new> <prop> [prop...]
# Applies a one-off textual mutation to /repo, runs the pinned suite and the quick checks, restores /repo.
set -u
f=$1; old=$2; new=$3; shift 3
export GOFLAGS=-mod=mod GOPROXY=off GOSUMDB=off GOTOOLCHAIN=local
cd /repo || exit 2
python3 - "$f" "$old" "$new" <<'PY' || { echo "MUTATION-NOT-APPLIED"; exit 2; }
import sys
f,old,new=sys.argv[1:4]
s=open(f).read()
if s.count(old)<1: sys.exit(1)
open(f,'w').write(s.replace(old,new,1))
PY
if go build ./... 2>/tmp/mut_build.txt; then
  if go test -count=1 ./... >/tmp/mut_test.txt 2>&1; then suite=pass; else suite=FAIL; fi
  echo "mutant [$f: $old -> $new] pinned-suite=$suite"
  for p in "$@"; do
    out=$(cd /verif && ./check $p --tier ${TIER:-quick} 2>&1); code=$?
    echo "  $p exit=$code $(echo "$out" | grep -c '^VIOLATION') violation line(s): $(echo "$out" | grep '^VIOLATION' | head -1 | cut -c1-260)"
  done
else
  echo "mutant does not compile"; head -5 /tmp/mut_build.txt
fi
git -C /repo checkout -- . 
