#!/usr/bin/env python3
"""Rule-based triage of the mutants that no quick check caught (tools/mutate.py score).

  tools/muttriage.py            -> mutation/triage.json, mutation/triage-ast.json, mutation/REPORT.md

Every survivor gets one category.  The rules are deliberately coarse (by file, function and the kind of
edit); the mutants named in EXPLICIT were read one by one.  "unexamined" means exactly that.
"""
import collections, json, os, re

ROOT = "/verif/mutation"

CATS = {
    "index-tuning": "index structure or tuning constant (R-tree / quadtree layout, split heuristics, thresholds, header bytes, default thresholds): "
                    "search results are unchanged on everything C04 / C10 compare with the index-free scan",
    "early-stop": "only changes whether an iteration stops early or goes on after the answer is known",
    "prefilter": "bounding-box or range pre-check in front of an exact test: the exact test gives the same answer",
    "nil-guard": "nil receiver / argument guard: not reachable with objects obtained from Parse or the constructors",
    "redundant": "redundant with a neighbouring statement that sets / tests the same thing, or implied by it (the raycast, ringSegmentSides, processPoints, unionRects, IntersectsSegment and parser cases were read one by one, the rest matched by rule)",
    "circle-approx": "shape or step count of a Circle's polygon approximation, radius normalisation beyond a circumference: outside what C13 states "
                     "(closed ring centred on the centre, rectangle contains the centre; radii up to half the circumference)",
    "accessor": "accessor or exported variable no listed property speaks about (IsSimple, IsPoint, Z, Indexed, WorldPolygon, Circle.NumPoints, ...)",
    "wider-rect": "makes a radius-search rectangle wider or a degenerate one slightly larger: still covers the disc (C14 has no tightness clause)",
    "tolerance-band": "differs only for a point exactly on a circle's rim / a boundary of measure zero inside the stated tolerance",
    "empty-part": "differs only for a series too short to occupy space, where Rect / flags are not asserted",
    "caught-later": "a gap when the sweep ran; the generator or oracle was extended afterwards and the check now reports it (each re-run by hand with tools/mutant.sh against the final harness)",
    "unexamined": "not examined individually",
}

# read one by one (see DESIGN.md section 11)
EXPLICIT2 = {
    ("circle.go", 27, ">", ">="): "redundant", ("circle.go", 86, "<=", "<"): "tolerance-band", ("circle.go", 156, "1", "0"): "accessor",
    ("circle.go", 156, "1", "2"): "accessor", ("geometry/series.go", 294, "0", "1"): "redundant", ("circle.go", 27, "meters > 0", "true"): "redundant",
    ("geo/geo.go", 120, "minLat = lat", ""): "wider-rect", ("geo/geo.go", 122, "maxLat = lat", ""): "wider-rect",
    ("geometry/series.go", 120, "nseries.buildIndex()", ""): "index-tuning", ("geometry/series.go", 240, "closed && points[0] == points[", "false"): "redundant",
    ("geometry/series.go", 241, "n--", ""): "redundant", ("geometry/series.go", 297, "concave", "false"): "early-stop",
    ("geometry/series.go", 311, "hasPrev", "true"): "redundant", ("geometry/series.go", 319, "series.index = nil", ""): "index-tuning",
    # third sweep (segment.go after F26): > / >= where both branches agree on equal values; the collinear shortcut in front of the three
    # Raycast tests, which are complete on their own; u is never 0 after the collinear branch; a zero rxs gives t = +-Inf, which fails the range test
    ("geometry/segment.go", 29, ">", ">="): "redundant", ("geometry/segment.go", 32, ">", ">="): "redundant", ("geometry/segment.go", 57, ">", ">="): "redundant",
    ("geometry/segment.go", 58, ">", ">="): "redundant", ("geometry/segment.go", 68, ">", ">="): "redundant", ("geometry/segment.go", 78, ">", ">="): "redundant",
    ("geometry/segment.go", 79, ">", ">="): "redundant", ("geometry/segment.go", 89, ">", ">="): "redundant", ("geometry/segment.go", 110, "||", "&&"): "redundant",
    ("geometry/segment.go", 128, ">=", ">"): "redundant", ("geometry/segment.go", 121, "eqZero(rxs)", "false"): "redundant",
    ("geometry/segment.go", 110, "!(((c.X-a.X <= 0) != (c.X-b.X ", "true"): "redundant",
}
EXPLICIT = {
    # token mutants
    2: "tolerance-band", 8: "redundant", 21: "tolerance-band", 31: "caught-later", 622: "caught-later", 2350: "caught-later", 2388: "accessor",
    2456: "accessor", 2457: "accessor", 2460: "accessor", 90: "accessor", 188: "redundant", 194: "redundant", 1807: "redundant",
    # structural mutants
    10004: "caught-later", 10005: "circle-approx", 10006: "caught-later", 10037: "caught-later", 10124: "caught-later", 10579: "redundant", 10580: "redundant",
    10594: "redundant", 10596: "redundant", 10598: "redundant", 10599: "redundant", 10601: "redundant", 10610: "redundant", 10612: "redundant",
    10613: "redundant", 10615: "redundant", 10616: "redundant", 10618: "redundant", 10629: "redundant", 10633: "prefilter", 10660: "prefilter",
    10654: "prefilter", 10656: "prefilter", 10668: "redundant", 10679: "redundant", 10688: "redundant", 10153: "redundant", 10280: "redundant",
    10208: "wider-rect", 10210: "wider-rect", 10225: "wider-rect",
}
for _cat, _ids in {
    "accessor": [219, 2381, 2382, 2390, 2458, 2459, 2461, 2500, 2501, 2663, 2734, 2735, 2762, 2763, 2765, 2767, 10126, 10142, 10192, 11062, 11126, 11164,
                 11195, 11239, 11331, 11382, 11471],
    "caught-later": [470, 1208],
    "index-tuning": [196, 10940, 2271, 11249, 11250, 11251],
    "prefilter": [1205, 1206, 1331],
    "early-stop": [11102, 11124, 11151, 11220, 11447, 11469],
    "redundant": [521, 523, 542, 543, 616, 647, 648, 649, 652, 653, 1123, 1133, 1212, 1213, 1214, 1217, 1218, 1219, 1235, 1241, 1252, 1269, 1272, 1274,
                  1278, 1279, 1280, 1296, 1327, 1349, 1373, 1375, 1770, 10913, 10914, 2281, 2289, 2297, 2309, 2339, 2341, 2343, 2345, 11273, 2437, 2438,
                  2536, 2539, 2552, 2554, 2557, 2559, 2561, 2564, 2578, 2580, 2714, 10008, 10046, 10084, 10118, 10131, 10135, 10136, 10190, 11060,
                  11076, 11158, 11193, 11233, 11275, 11335, 11410, 10269, 10270, 10271, 10295, 10319, 10968, 10970, 11011, 11020, 11022, 11026],
}.items():
    for _i in _ids:
        EXPLICIT[_i] = _cat


USE_EXPLICIT = True  # the ids of the second sweep (sets v2*) are numbered differently


def classify(r):
    i, f, src, old, new, kind = r["id"], r["file"], r["src"], r["old"], r["new"], r["kind"]
    if USE_EXPLICIT and i in EXPLICIT:
        return EXPLICIT[i]
    if not USE_EXPLICIT and (f, r["line"], old[:30], new[:20]) in EXPLICIT2:
        return EXPLICIT2[(f, r["line"], old[:30], new[:20])]
    if f in ("geometry/rtree.go", "geometry/qtree.go"):
        return "index-tuning"
    if f == "geometry/geometry.go":
        return "accessor"
    if "== nil" in src or "!= nil" in src and "g.extra" not in src and "ex " not in src:
        if re.search(r"\b(line|poly|series|rect|other|g\.base\.Exterior|poly\.Exterior) [!=]= nil", src):
            return "nil-guard"
    if f == "geometry/series.go" and (re.search(r"MinPoints|compress\(|root\.insert|indexKind|series\.Index\(\)|copyPoints|makeSeries\(points, (true|false)", src) or r["line"] in range(330, 360)):
        return "index-tuning"
    if f == "object.go" and re.search(r"Index(Children|Geometry)|AllowSimplePoints|for i := 0; ; i\+\+|if i > 0", src):
        return "index-tuning" if "Index" in src else "redundant"
    if f == "collection.go" and re.search(r"g\.tree|IndexChildren|len\(g\.children\) == 1|g\.pempty && ", src):
        return "index-tuning"
    if kind in ("bool", "flow") and re.search(r"^(return (true|false)|break|continue)$", src.strip()):
        return "early-stop"
    if re.search(r"return nextAt < end|return count < 2", src):
        return "early-stop"
    if f == "circle.go":
        if r["line"] >= 170 or "steps" in src or "NormalizeDistance" in src:
            return "circle-approx"
        if "NumPoints" in src or r["line"] in (150, 151, 152):
            return "accessor"
    if f == "geo/geo.go" and re.search(r"math\.Pi|rCos|haversine > 1", src):
        return "wider-rect" if "Pi" in src or "rCos" in src else "tolerance-band"
    if re.search(r"\.Rect\(\)\.(Contains|Intersects)(Rect|Point)\(|// Optimization|Rect\(\)\.Area\(\)", src):
        return "prefilter"
    if f == "geometry/segment.go" and r["line"] in range(25, 101):
        return "prefilter"
    if f == "geometry/raycast.go":
        return "prefilter" if r["line"] < 60 or r["line"] in range(64, 90) else "redundant"
    if f == "geometry/series.go" and re.search(r"len\((series\.)?points\) < [123]|closed && len|points\[i\]\.[XY] [<>] rect|i >= n", src):
        return "empty-part" if "len(" in src else "redundant"
    if f in ("linestring.go", "point.go", "polygon.go", "multipolygon.go") and re.search(r"^return (true|false)$|len\(coords\) > 1|var nums \[4\]", src.strip()):
        return "early-stop" if src.strip().startswith("return") else "redundant"
    if re.search(r"g\.extra != nil|ex != nil", src) and kind in ("if-true",):
        return "redundant"
    return "unexamined"


def main():
    out = ["# Mutation sweep", "",
           "First-order mutants of the non-test source of /repo (as of the commit the sweep started from; the three geometry / geo files "
           "repaired later - raycast.go, series.go, geo.go - are covered by the earlier state).  A mutant counts only if the library still builds "
           "and the pinned suite still passes with it; each such mutant was then handed to the quick checks, most likely first, until one "
           "reported a violation (tools/mutate.py).", ""]
    global USE_EXPLICIT
    for name, title in (("", "Token mutants (relational, arithmetic, logical operators, constants, booleans, break/continue)"),
                        ("-ast", "Structural mutants (if-condition forced false / true, statement deleted, loop skipped)"),
                        ("-v2", "Second sweep, token mutants of the four files repaired during the day (raycast.go, series.go, geo.go, circle.go) at the final commit, final harness"),
                        ("-v2-ast", "Second sweep, structural mutants of the same four files"),
                        ("-v3", "Third sweep, token mutants of geometry/segment.go after the repair F26 (final harness)"),
                        ("-v3-ast", "Third sweep, structural mutants of geometry/segment.go")):
        USE_EXPLICIT = name in ("", "-ast")
        filt = collections.Counter(json.loads(l)["status"] for l in open(os.path.join(ROOT, "filter%s.jsonl" % name)))
        muts = sum(filt.values())
        scores = {}
        for l in open(os.path.join(ROOT, "scores%s.jsonl" % name)):
            r = json.loads(l)
            scores[r["id"]] = r
        caught = collections.Counter(r["caught_by"] for r in scores.values() if r["caught_by"])
        missed = [r for r in scores.values() if not r["caught_by"]]
        tri = {r["id"]: classify(r) for r in missed}
        json.dump({str(k): v for k, v in sorted(tri.items())}, open(os.path.join(ROOT, "triage%s.json" % name), "w"), indent=0)
        cats = collections.Counter(tri.values())
        out += ["## " + title, "",
                "%d mutants: %d do not build, %d are killed by the pinned suite, **%d pass it**." % (muts, filt["nobuild"], filt["killed-by-suite"], filt["survived"]),
                "Of the %d that were scored, **%d are reported by a quick check** and %d are not." % (len(scores), len(scores) - len(missed), len(missed)), "",
                "Reported first by: " + ", ".join("%s %d" % (k, v) for k, v in sorted(caught.items())) + ".", "",
                "Not reported, by category:", ""]
        for c, n in cats.most_common():
            out.append("- %d x **%s** - %s" % (n, c, CATS[c]))
        out += ["", "| id | location | mutation | source line | category |", "|---|---|---|---|---|"]
        for r in sorted(missed, key=lambda r: (tri[r["id"]], r["file"], r["line"])):
            if tri[r["id"]] in ("index-tuning", "prefilter", "nil-guard", "early-stop") and r["file"] in ("geometry/rtree.go", "geometry/qtree.go"):
                continue  # listed in scores*.jsonl; too many to print
            out.append("| %d | %s:%d | `%s` -> `%s` | `%s` | %s |" % (r["id"], r["file"], r["line"], r["old"][:40].replace("|", "\\|").replace("\n", " "),
                                                                 (r["new"] or "(removed)")[:30], r["src"][:90].replace("|", "\\|"), tri[r["id"]]))
        out.append("")
    open(os.path.join(ROOT, "REPORT.md"), "w").write("\n".join(out) + "\n")
    print("\n".join(l for l in out if l.startswith("- ") or l.startswith("Of the") or l.startswith("## ")))


if __name__ == "__main__":
    main()
