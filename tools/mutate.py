#!/usr/bin/env python3
"""First-order mutation sweep: how many token mutants of tidwall/geojson that the pinned suite lets through
do the quick checks catch?

  tools/mutate.py gen                      -> /verif/mutation/mutants.jsonl   (tools/mutgen, go/scanner based)
  tools/mutate.py filter [--workers 8]     -> /verif/mutation/survivors.jsonl (mutants that build and pass `go test ./...`)
  tools/mutate.py score  [--workers 3] [--only FILE-SUBSTRING] [--redo-missed]
                                           -> /verif/mutation/scores.jsonl    (first quick check that reports a violation)
  tools/mutate.py report                   -> /verif/mutation/REPORT.md

Nothing here touches /repo: every worker has its own scratch copy of /repo's HEAD and of /verif's committed
tree under /tmp/mut-*, with the harness's replace directive pointed at the copy; they are removed at the end.
"""
import json, os, shutil, subprocess, sys, time, collections
from concurrent.futures import ThreadPoolExecutor

ROOT = "/verif"
OUT = os.path.join(ROOT, "mutation")
ENV = dict(os.environ, GOFLAGS="-mod=mod", GOPROXY="off", GOSUMDB="off", GOTOOLCHAIN="local")

# order in which the checks are tried, by directory of the mutated file (first catch wins; all 19 are tried before "missed")
ORDER = {
    "geometry": ["C19", "C01", "C04", "C18", "C02", "C03", "C12", "C09", "C10", "C08", "C11", "C06", "C07", "C17", "C05", "C13", "C16", "C14", "C15"],
    "geo": ["C15", "C14", "C13", "C09", "C05", "C06", "C01", "C02", "C03", "C04", "C07", "C08", "C10", "C11", "C12", "C16", "C17", "C18", "C19"],
    "": ["C07", "C06", "C11", "C09", "C10", "C08", "C17", "C13", "C01", "C05", "C02", "C03", "C12", "C04", "C16", "C18", "C19", "C14", "C15"],
}


# checks tried first for a file (then the directory order); checks that cannot reach the file are skipped:
# geometry does not import geo or the root package, geo imports nothing of the repository
FIRST = {
    "geometry/raycast.go": ["C19", "C01"], "geometry/segment.go": ["C19", "C02"], "geometry/series.go": ["C18", "C04", "C12"],
    "geometry/rtree.go": ["C04", "C01"], "geometry/qtree.go": ["C04", "C01"], "geometry/ring.go": ["C01", "C02", "C03"],
    "geometry/poly.go": ["C01", "C02", "C03"], "geometry/line.go": ["C01", "C02", "C03"], "geometry/rect.go": ["C01", "C02", "C03", "C11"],
    "geometry/point.go": ["C02", "C03"], "geometry/geometry.go": ["C04", "C08"],
    "circle.go": ["C13", "C09", "C17"], "collection.go": ["C10", "C09"], "object.go": ["C07", "C06", "C05"], "feature.go": ["C07", "C06", "C09"],
    "spatial.go": ["C09", "C10"], "rect.go": ["C09", "C08", "C11"], "simplepoint.go": ["C09", "C08", "C11"],
}
SKIP = {"geometry": {"C14", "C15"}, "geo": {"C01", "C02", "C03", "C04", "C07", "C12", "C18", "C19"}, "": {"C04", "C18", "C19", "C14", "C15"}}


def order_for(file):
    d = file.split("/")[0] if "/" in file else ""
    out = []
    for p in FIRST.get(file, []) + ORDER.get(d, ORDER[""]):
        if p not in out and p not in SKIP.get(d, set()):
            out.append(p)
    return out


def sh(cmd, cwd=None, timeout=3600, env=None):
    try:
        p = subprocess.run(cmd, cwd=cwd, env=env or ENV, shell=isinstance(cmd, str), stdout=subprocess.PIPE, stderr=subprocess.STDOUT, text=True, timeout=timeout)
        return p.returncode, p.stdout
    except subprocess.TimeoutExpired as e:
        return 124, (e.stdout or b"").decode(errors="replace") if isinstance(e.stdout, bytes) else (e.stdout or "")


SET = ""   # "" = token mutants, "-ast" = structural mutants (tools/mutgen ... ast)


def F(name):
    base, ext = os.path.splitext(name)
    return os.path.join(OUT, base + SET + ext)


def load(path):
    return [json.loads(l) for l in open(path)] if os.path.exists(path) else []


def repo_copy(dst):
    shutil.rmtree(dst, ignore_errors=True)
    os.makedirs(dst)
    sh("git -C /repo archive HEAD | tar -x -C %s" % dst)


def apply(repo, m):
    p = os.path.join(repo, m["file"])
    src = open(p, "rb").read()
    assert src[m["off"]:m["off"] + m["len"]] == m["old"].encode(), (m, src[m["off"]:m["off"] + 10])
    open(p, "wb").write(src[:m["off"]] + m["new"].encode() + src[m["off"] + m["len"]:])
    return src


def gen():
    os.makedirs(OUT, exist_ok=True)
    tmp = "/tmp/mut-gen"
    repo_copy(tmp)
    code, out = sh("go run . %s %s > %s" % (tmp, "ast" if "ast" in SET else "", F("mutants.jsonl")), cwd=os.path.join(ROOT, "tools", "mutgen"))
    print(out.strip())
    shutil.rmtree(tmp, ignore_errors=True)


def do_filter(workers, only=""):
    muts = load(F("mutants.jsonl"))
    if only:
        muts = [m for m in muts if any(o in m["file"] for o in only.split(","))]
    done = {r["id"]: r for r in load(F("filter.jsonl"))}
    todo = [m for m in muts if m["id"] not in done]
    print(len(muts), "mutants,", len(todo), "to filter")
    outf = open(F("filter.jsonl"), "a")

    def work(w):
        repo = "/tmp/mut-filter-%d" % w
        repo_copy(repo)
        for m in todo[w::workers]:
            orig = apply(repo, m)
            try:
                code, out = sh("go build ./... 2>&1", cwd=repo, timeout=300)
                if code != 0:
                    st = "nobuild"
                else:
                    code, out = sh("go test -count=1 -timeout 60s ./... 2>&1", cwd=repo, timeout=400)
                    st = "survived" if code == 0 else "killed-by-suite"
            finally:
                open(os.path.join(repo, m["file"]), "wb").write(orig)
            outf.write(json.dumps({"id": m["id"], "status": st}) + "\n")
            outf.flush()
        shutil.rmtree(repo, ignore_errors=True)

    with ThreadPoolExecutor(workers) as ex:
        list(ex.map(work, range(workers)))
    res = {r["id"]: r["status"] for r in load(F("filter.jsonl"))}
    with open(F("survivors.jsonl"), "w") as f:
        for m in muts:
            if res.get(m["id"]) == "survived":
                f.write(json.dumps(m) + "\n")
    print(collections.Counter(res.values()))


def verif_copy(dst, repo):
    shutil.rmtree(dst, ignore_errors=True)
    os.makedirs(dst)
    sh("git -C %s archive HEAD | tar -x -C %s" % (ROOT, dst))
    gm = os.path.join(dst, "harness", "go.mod")
    s = open(gm).read().replace("=> /repo", "=> " + repo)
    assert repo in s
    open(gm, "w").write(s)


def do_score(workers, only, redo_missed, seed):
    surv = load(F("survivors.jsonl"))
    if only:
        surv = [m for m in surv if any(o in m["file"] for o in only.split(","))]
    sp = F("scores.jsonl")
    prev = {}
    for r in load(sp):
        prev[r["id"]] = r
    todo = [m for m in surv if m["id"] not in prev or (redo_missed and prev[m["id"]]["caught_by"] is None)]
    print(len(surv), "survivors,", len(todo), "to score")
    outf = open(sp, "a")

    def work(w):
        tag = SET + ("-" + only.replace("/", "_").replace(",", "+")[:40] if only else "")
        repo, ver = "/tmp/mut-repo%s-%d" % (tag, w), "/tmp/mut-verif%s-%d" % (tag, w)
        repo_copy(repo)
        verif_copy(ver, repo)
        env = dict(ENV, VERIF_SEED=str(seed), VERIF_EVIDENCE_DIR=os.path.join(ver, "evidence-mut"))
        for m in todo[w::workers]:
            orig = apply(repo, m)
            t0 = time.time()
            rec = {"id": m["id"], "file": m["file"], "line": m["line"], "old": m["old"], "new": m["new"], "kind": m["kind"], "src": m["src"],
                   "caught_by": None, "first": "", "inconclusive": [], "tried": [], "seed": seed}
            try:
                for p in order_for(m["file"]):
                    code, out = sh(["./check", p, "--tier", "quick"], cwd=ver, timeout=1500, env=env)
                    rec["tried"].append(p)
                    viol = [l for l in out.splitlines() if l.startswith("VIOLATION")]
                    if code == 1 and viol:
                        rec["caught_by"], rec["first"] = p, viol[0][:300]
                        break
                    if code != 0:
                        rec["inconclusive"].append({"check": p, "exit": code, "tail": out[-300:]})
            finally:
                open(os.path.join(repo, m["file"]), "wb").write(orig)
            rec["wall_s"] = round(time.time() - t0, 1)
            outf.write(json.dumps(rec) + "\n")
            outf.flush()
            print("w%d #%d %s:%d [%s -> %s] %s (%.0fs)" % (w, m["id"], m["file"], m["line"], m["old"], m["new"], rec["caught_by"] or ("MISSED" + (" +inconclusive" if rec["inconclusive"] else "")), rec["wall_s"]), flush=True)
        shutil.rmtree(repo, ignore_errors=True)
        shutil.rmtree(ver, ignore_errors=True)

    with ThreadPoolExecutor(workers) as ex:
        list(ex.map(work, range(workers)))


def report():
    muts = load(F("mutants.jsonl"))
    filt = collections.Counter(r["status"] for r in {r["id"]: r for r in load(F("filter.jsonl"))}.values())
    scores = {}
    for r in load(F("scores.jsonl")):
        scores[r["id"]] = r
    tri = {}
    tp = F("triage.json")
    if os.path.exists(tp):
        tri = json.load(open(tp))
    by = collections.Counter(r["caught_by"] or "missed" for r in scores.values())
    lines = ["# Mutation sweep", "",
             "%d first-order token mutants (tools/mutgen); %s." % (len(muts), ", ".join("%d %s" % (v, k) for k, v in sorted(filt.items()))),
             "%d suite-surviving mutants scored against the quick checks: %d caught, %d not caught." % (len(scores), len(scores) - by["missed"], by["missed"]), "",
             "First check that caught (the order tried depends on the directory of the mutated file):", ""]
    for k, v in sorted(by.items()):
        lines.append("- %s: %d" % (k, v))
    lines += ["", "## Not caught", "", "| id | location | mutation | source line | triage |", "|---|---|---|---|---|"]
    for r in sorted(scores.values(), key=lambda r: (r["file"], r["line"])):
        if r["caught_by"] is None:
            lines.append("| %d | %s:%d | `%s` -> `%s` | `%s` | %s |" % (r["id"], r["file"], r["line"], r["old"], r["new"] or "(removed)", r["src"].replace("|", "\\|")[:110], tri.get(str(r["id"]), "")))
    open(F("REPORT.md"), "w").write("\n".join(lines) + "\n")
    print("\n".join(lines[:30]))


if __name__ == "__main__":
    cmd = sys.argv[1]
    def opt(name, default):
        return sys.argv[sys.argv.index(name) + 1] if name in sys.argv else default
    if "--set" in sys.argv:
        SET = "-" + opt("--set", "")
    if cmd == "gen":
        gen()
    elif cmd == "filter":
        do_filter(int(opt("--workers", "8")), opt("--only", ""))
    elif cmd == "score":
        do_score(int(opt("--workers", "3")), opt("--only", ""), "--redo-missed" in sys.argv, int(opt("--seed", "1")))
    elif cmd == "report":
        report()
