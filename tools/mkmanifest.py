#!/usr/bin/env python3
"""Regenerates /verif/MANIFEST.json from checkinfo.json (one entry per claimed property)."""
import json, os
ROOT = os.path.dirname(os.path.dirname(os.path.abspath(__file__)))
info = json.load(open(os.path.join(ROOT, "checkinfo.json")))
props = [json.loads(l) for l in open(os.path.join(ROOT, "properties.jsonl"))]
checks, na = [], []
for p in props:
    pid = p["id"]
    ci = info.get(pid)
    if not ci or ci.get("not_applicable"):
        na.append({"property_id": pid, "reason": (ci or {}).get("not_applicable", "check not built yet (work in progress; see DESIGN.md)")})
        continue
    checks.append({
        "property_id": pid,
        "quick_cmd": "./check %s --tier quick" % pid,
        "thorough_cmd": "./check %s --tier thorough" % pid,
        "evidence_file": "/verif/evidence/%s.json" % pid,
        "replay_cmd_template": "./check %s --replay {path}" % pid,
        "engine": "harness",
        "level_claimed": {"category": "exploration", "text": ci["level_text"], "design_ref": ci.get("design_ref", "DESIGN.md §4 " + pid)},
        "level_note": ci["level_note"],
        "technique": ci["technique"],
    })
m = {
    "version": 1,
    "setup_cmd": "./check --build",
    "hooks": {
        "guard": "verif",
        "enable": "no hooks are needed: the checks compile /repo's working tree as it is through a go.mod replace directive (build tag 'verif' is reserved and unused)",
        "baseline_off_cmd": "cd /repo && GOFLAGS=-mod=mod GOPROXY=off GOSUMDB=off go test -vet=off -count=1 -timeout 25m ./...",
        "source_commits": [],
        "add_only": True,
    },
    "engines": [{
        "name": "harness", "path": "/verif/harness",
        "serves_properties": [c["property_id"] for c in checks],
        "kind_free_text": "Go test binary (pgregory.net/rapid v1.3.0 generators + deterministic lattice enumerations + native go fuzzing in thorough tiers) against explicit oracles: exact integer/big.Rat planar model, encoding/json reference reader, unit-vector spherical model; sharded over processes by ./check (python3)",
    }],
    "checks": checks,
    "notes": "Driver: ./check Cxx --tier quick|thorough; exit 0 held / 1 VIOLATION / 2 inconclusive (build failure, worker death, harness self-check). Known findings: /verif/KNOWN_FINDINGS.txt. Regression replays: harness/testdata/regress/Cxx/*.json are re-run by every quick and thorough run.",
    "not_applicable": na,
}
json.dump(m, open(os.path.join(ROOT, "MANIFEST.json"), "w"), indent=1)
print("claimed:", [c["property_id"] for c in checks], "not claimed:", [n["property_id"] for n in na])
