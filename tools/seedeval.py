#!/usr/bin/env python3
"""Confirm a seeded change delivered by a sub-agent and run the checks against it.

  tools/seedeval.py <seed-dir> <id> <property> [more properties to run ...] [--tier quick|thorough]

<seed-dir> holds patch.diff, one *_test.go demonstration and NOTES.md.  Steps:
  1. scratch worktree of /repo HEAD under /tmp: the patch applies, the library builds, the pinned suite passes;
  2. the demonstration fails with the patch and passes without it;
  3. the patch is applied to /repo itself, ./check <property> runs, /repo is restored (git checkout -- .);
  4. everything is recorded under /verif/seeded/<id>/ (patch.diff, demo, NOTES.md, meta.json).
"""
import glob, json, os, re, shutil, subprocess, sys, time

ENV = dict(os.environ, GOFLAGS="-mod=mod", GOPROXY="off", GOSUMDB="off", GOTOOLCHAIN="local", VERIF_EVIDENCE_DIR="/tmp/seedeval-evidence")
ROOT = os.environ.get("SEEDEVAL_ROOT", "/verif")


def sh(cmd, cwd=None, timeout=3600):
    p = subprocess.run(cmd, cwd=cwd, env=ENV, shell=isinstance(cmd, str), stdout=subprocess.PIPE, stderr=subprocess.STDOUT, text=True, timeout=timeout)
    return p.returncode, p.stdout


def main():
    args = [a for a in sys.argv[1:] if not a.startswith("--")]
    tier = "quick"
    if "--tier" in sys.argv:
        tier = sys.argv[sys.argv.index("--tier") + 1]
        args = [a for a in args if a != tier]
    seed_dir, sid, props = args[0], args[1], args[2:]
    patch = os.path.join(seed_dir, "patch.diff")
    demos = [f for f in glob.glob(os.path.join(seed_dir, "*.go"))]
    meta = {"id": sid, "breaks_property": props[0], "checks_run": {}, "confirmed": {}}
    wt = "/tmp/seedeval-wt"
    sh(["git", "-C", "/repo", "worktree", "remove", "--force", wt])
    shutil.rmtree(wt, ignore_errors=True)
    code, out = sh(["git", "-C", "/repo", "worktree", "add", "--detach", wt, "HEAD"])
    try:
        code, out = sh(["git", "apply", "--check", patch], cwd=wt)
        meta["confirmed"]["patch_applies"] = code == 0
        if code != 0:
            print("patch does not apply:", out)
            return finish(meta, seed_dir, sid, False)
        sh(["git", "apply", patch], cwd=wt)
        code, out = sh("go build ./... && go test -count=1 ./... 2>&1 | tail -5", cwd=wt)
        meta["confirmed"]["builds_and_pinned_suite_passes"] = code == 0 and "FAIL" not in out
        print("suite with patch:", out.strip().splitlines()[-3:])
        # place demos
        placed = []
        for d in demos:
            src = open(d).read()
            m = re.search(r"^package\s+(\w+)", src, re.M)
            pkg = m.group(1) if m else "geojson"
            sub = {"geojson": ".", "geojson_test": ".", "geometry": "geometry", "geometry_test": "geometry", "geo": "geo", "geo_test": "geo"}.get(pkg, ".")
            dst = os.path.join(wt, sub, "zz_seed_" + os.path.basename(d))
            shutil.copy(d, dst)
            placed.append((dst, sub))
        pk = sorted(set("./" + s if s != "." else "." for _, s in placed)) or ["./..."]
        race = ["-race"] if any("race" in os.path.basename(d) for d in demos) or props[0] == "C16" else []
        code_with, out_with = sh(["go", "test", "-count=1"] + race + pk, cwd=wt)
        sh(["git", "apply", "-R", patch], cwd=wt)
        code_without, out_without = sh(["go", "test", "-count=1"] + race + pk, cwd=wt)
        meta["confirmed"]["demo_fails_with_patch"] = code_with != 0
        meta["confirmed"]["demo_passes_without_patch"] = code_without == 0
        print("demo with patch: exit", code_with, "| without: exit", code_without)
        if code_without != 0:
            print(out_without[-1500:])
    finally:
        sh(["git", "-C", "/repo", "worktree", "remove", "--force", wt])
        shutil.rmtree(wt, ignore_errors=True)
    ok = all(meta["confirmed"].values())
    if not ok:
        return finish(meta, seed_dir, sid, False)
    # run the checks against /repo with the patch applied
    code, out = sh(["git", "-C", "/repo", "status", "--porcelain"])
    if out.strip():
        print("refusing: /repo has local changes:", out)
        return 2
    sh(["git", "-C", "/repo", "apply", os.path.abspath(patch)])
    try:
        seeds = [int(x) for x in os.environ.get("SEEDEVAL_SEEDS", "1").split(",")]
        for p in props:
            for sd in seeds:
                t0 = time.time()
                ENV["VERIF_SEED"] = str(sd)
                code, out = sh(["./check", p, "--tier", tier], cwd=ROOT, timeout=7200)
                viol = [l for l in out.splitlines() if l.startswith("VIOLATION")]
                key = p if sd == seeds[0] else "%s@seed%d" % (p, sd)
                meta["checks_run"][key] = {"tier": tier, "seed": sd, "exit": code, "violation_lines": len(viol), "first": viol[0][:400] if viol else "", "wall_s": round(time.time() - t0, 1)}
                print("  ./check %s --tier %s (VERIF_SEED=%d) -> exit %d, %d violation line(s) %s" % (p, tier, sd, code, len(viol), viol[0][:200] if viol else ""))
    finally:
        sh(["git", "-C", "/repo", "checkout", "--", "."])
        sh(["git", "-C", "/repo", "clean", "-fdq"])
    return finish(meta, seed_dir, sid, True)


def finish(meta, seed_dir, sid, keep):
    if keep:
        dst = os.path.join("/verif", "seeded", sid)
        os.makedirs(dst, exist_ok=True)
        for f in os.listdir(seed_dir):
            if os.path.isfile(os.path.join(seed_dir, f)):
                shutil.copy(os.path.join(seed_dir, f), os.path.join(dst, f))
        notes = os.path.join(seed_dir, "NOTES.md")
        meta["needs_to_manifest"] = open(notes).read()[:3000] if os.path.exists(notes) else ""
        meta["what_was_run"] = "scratch worktree: git apply, go build ./... && go test ./..., demo with and without the patch; then git -C /repo apply, ./check <property>, git -C /repo checkout -- ."
        old = {}
        mp = os.path.join(dst, "meta.json")
        if os.path.exists(mp):
            old = json.load(open(mp))
            for k, v in old.get("checks_run", {}).items():
                meta["checks_run"].setdefault(k, v)
        json.dump(meta, open(mp, "w"), indent=1)
    print(json.dumps({k: meta[k] for k in ("id", "confirmed", "checks_run")}, indent=1))
    return 0 if keep else 1


if __name__ == "__main__":
    sys.exit(main())
