package harness

// C02 — intersects is exact planar intersection and symmetric (DESIGN.md §4 C02).

import (
	"fmt"
	"testing"

	"pgregory.net/rapid"
	"verifharness/adapt"
	"verifharness/exact"
	"verifharness/fw"
)

func c02Check(c pairCase) fw.Outcome {
	A, B := &c.A, &c.B
	want, w := exact.Intersects(A, B)
	if want && (w == nil || !A.Member(*w) || !B.Member(*w)) {
		return fw.Outcome{Infra: "oracle self-check: intersects witness is not in both sets"}
	}
	label := fmt.Sprintf("%s-%s/%s/%v", A.K, B.K, contactClass(A, B), want)
	nt := boxesIntersect(A, B)
	if !want && (shapeHash(A)^shapeHash(B))%32 == 0 {
		if q := gridRefute(A, B, func(q exact.Q) bool { return A.Member(q) && B.Member(q) }); q != nil {
			return fw.Outcome{Infra: "oracle self-check: intersects=false but grid point " + q.String() + " is in both sets"}
		}
	}
	pl := buildPair(&c)
	ws := ""
	if w != nil {
		ws = " witness " + w.String()
	}
	type call struct {
		name string
		got  bool
	}
	calls := []call{
		{"A.Intersects(B)", adapt.Call("intersects", pl.ga, pl.gb)},
		{"B.Intersects(A)", adapt.Call("intersects", pl.gb, pl.ga)},
	}
	if pl.ga0 != pl.ga || pl.gb0 != pl.gb {
		calls = append(calls,
			call{"index-free A.Intersects(B)", adapt.Call("intersects", pl.ga0, pl.gb0)},
			call{"index-free B.Intersects(A)", adapt.Call("intersects", pl.gb0, pl.ga0)})
	}
	oa, ob := adapt.Obj(A, c.EA, 0), adapt.Obj(B, c.EB, 0)
	calls = append(calls, call{"object A.Intersects(B)", oa.Intersects(ob)}, call{"object B.Intersects(A)", ob.Intersects(oa)})
	if shapePoints(A) >= 60 || shapePoints(B) >= 60 {
		// both operands translated through Move (indexed shapes must keep answering)
		dx, dy := adapt.F(7, c.EA.Scale), adapt.F(-3, c.EA.Scale)
		ma, mb := moveGeom(pl.ga, dx, dy), moveGeom(pl.gb, dx, dy)
		calls = append(calls, call{"after Move of both: A.Intersects(B)", adapt.Call("intersects", ma, mb)}, call{"after Move of both: B.Intersects(A)", adapt.Call("intersects", mb, ma)})
	}
	for _, cl := range calls {
		if cl.got != want {
			return fw.Failf(label, "%s = %v, exact %v;%s; %s", cl.name, cl.got, want, ws, pairString(&c))
		}
	}
	return fw.OK(label, nt)
}

func shrinkPair(c pairCase) []pairCase {
	var out []pairCase
	if c.EA != (adapt.Enc{}) || c.EB != (adapt.Enc{}) {
		out = append(out, pairCase{A: c.A, B: c.B})
	}
	dropAt := func(r []exact.P, i int) []exact.P { return append(append([]exact.P{}, r[:i]...), r[i+1:]...) }
	variants := func(s exact.Shape) []exact.Shape {
		var vs []exact.Shape
		switch s.K {
		case exact.KLine:
			for i := range s.Line {
				if len(s.Line) > 2 {
					t := s
					t.Line = dropAt(s.Line, i)
					vs = append(vs, t)
				}
			}
		case exact.KPoly:
			for i := range s.Holes {
				t := s
				t.Holes = append(append([][]exact.P{}, s.Holes[:i]...), s.Holes[i+1:]...)
				vs = append(vs, t)
			}
			ext := exact.Unclose(s.Ext)
			closed := len(ext) != len(s.Ext)
			for i := range ext {
				if len(ext) > 3 {
					e := dropAt(ext, i)
					if closed {
						e = append(e, e[0])
					}
					t := s
					t.Ext = e
					vs = append(vs, t)
				}
			}
		}
		var ok []exact.Shape
		for _, v := range vs {
			if exact.ValidShape(&v) {
				ok = append(ok, v)
			}
		}
		return ok
	}
	for _, a := range variants(c.A) {
		out = append(out, pairCase{A: a, B: c.B, EA: c.EA, EB: c.EB})
	}
	for _, b := range variants(c.B) {
		out = append(out, pairCase{A: c.A, B: b, EA: c.EA, EB: c.EB})
	}
	return out
}

func c02Gen(t *rapid.T) pairCase {
	ka := exact.Kind(rapid.IntRange(0, 3).Draw(t, "ka"))
	kb := exact.Kind(rapid.IntRange(0, 3).Draw(t, "kb"))
	return genPair(t, ka, kb, 6, false, true)
}

func c02Subs() []fw.Sub {
	return []fw.Sub{fw.Prop[pairCase]{
		Name:       "intersects-enumerated",
		Exhaustive: enumPairsSpace,
		Enum:       enumPairs,
		Check:      c02Check,
	}, fw.Prop[pairCase]{
		Name: "intersects-random",
		Checks: func(tier string) int {
			if tier == "thorough" {
				return 600000
			}
			return 30000
		},
		Gen:    c02Gen,
		Check:  c02Check,
		Shrink: shrinkPair,
	}}
}

func TestC02(t *testing.T) { fw.Main(t, "C02", c02Subs(), nil) }
