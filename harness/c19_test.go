package harness

// C19 — segment-level kernels are exact and symmetric (DESIGN.md §4 C19).

import (
	"fmt"
	"math"
	"math/big"
	"testing"

	"github.com/tidwall/geojson/geometry"
	"pgregory.net/rapid"
	"verifharness/adapt"
	"verifharness/exact"
	"verifharness/fw"
	"verifharness/kf"
)

type c19SegPt struct {
	S     exact.Seg `json:"seg"`
	P     exact.P   `json:"p"`
	Scale int       `json:"scale"`
	// NegZero: zero ordinates written as -0 (bit 0..5: seg A.X, A.Y, B.X, B.Y, P.X, P.Y) - the same point
	NegZero uint8 `json:"neg_zero,omitempty"`
}

func negZeroIf(v float64, on bool) float64 {
	if on && v == 0 {
		return math.Copysign(0, -1)
	}
	return v
}

type c19SegSeg struct {
	S     exact.Seg `json:"s"`
	T     exact.Seg `json:"t"`
	Scale int       `json:"scale"`
	// NegZero: zero ordinates written as -0 (bit 0..7: S.A.X, S.A.Y, S.B.X, S.B.Y, T.A.X ...)
	NegZero uint8 `json:"neg_zero,omitempty"`
}

func boxesMeet(a, b exact.Seg) bool {
	ax0, ax1 := min(a.A.X, a.B.X), max(a.A.X, a.B.X)
	ay0, ay1 := min(a.A.Y, a.B.Y), max(a.A.Y, a.B.Y)
	bx0, bx1 := min(b.A.X, b.B.X), max(b.A.X, b.B.X)
	by0, by1 := min(b.A.Y, b.B.Y), max(b.A.Y, b.B.Y)
	return ax0 <= bx1 && bx0 <= ax1 && ay0 <= by1 && by0 <= ay1
}

func c19CheckSegPt(c c19SegPt) fw.Outcome {
	seg := adapt.Seg(c.S, c.Scale)
	p := adapt.Pt(c.P, c.Scale)
	seg.A.X, seg.A.Y = negZeroIf(seg.A.X, c.NegZero&1 != 0), negZeroIf(seg.A.Y, c.NegZero&2 != 0)
	seg.B.X, seg.B.Y = negZeroIf(seg.B.X, c.NegZero&4 != 0), negZeroIf(seg.B.Y, c.NegZero&8 != 0)
	p.X, p.Y = negZeroIf(p.X, c.NegZero&16 != 0), negZeroIf(p.Y, c.NegZero&32 != 0)
	a, b := c.S.A, c.S.B
	wantOn := exact.OnSeg(c.S, exact.Lat(c.P))
	wantIn := false
	if !wantOn {
		aBelow, bBelow := a.Y <= c.P.Y, b.Y <= c.P.Y
		if aBelow != bBelow {
			lo, hi := a, b
			if !aBelow {
				lo, hi = b, a
			}
			wantIn = exact.Orient(lo, hi, c.P) > 0
		}
	}
	level := c.P.Y == a.Y || c.P.Y == b.Y
	inBox := c.P.X >= min(a.X, b.X) && c.P.X <= max(a.X, b.X) && c.P.Y >= min(a.Y, b.Y) && c.P.Y <= max(a.Y, b.Y)
	label := "general"
	switch {
	case a == b:
		label = "degenerate"
	case wantOn:
		label = "on"
	case level:
		label = "level-with-endpoint"
	case a.Y == b.Y:
		label = "horizontal"
	case a.X == b.X:
		label = "vertical"
	}
	nt := level || inBox
	res := seg.Raycast(p)
	rayKnown := func(o fw.Outcome) fw.Outcome { return o } // Raycast is asserted at every scale, the denormal one included
	if res.On != wantOn {
		return rayKnown(fw.Failf(label, "Segment%v.Raycast(%v).On = %v, exact %v (scale 2^%d)", c.S, c.P, res.On, wantOn, c.Scale))
	}
	if !wantOn && res.In != wantIn {
		return rayKnown(fw.Failf(label, "Segment%v.Raycast(%v).In = %v, exact half-open crossing %v (scale 2^%d)", c.S, c.P, res.In, wantIn, c.Scale))
	}
	if got := seg.ContainsPoint(p); got != wantOn {
		return rayKnown(fw.Failf(label, "Segment%v.ContainsPoint(%v) = %v, exact %v (scale 2^%d)", c.S, c.P, got, wantOn, c.Scale))
	}
	wantCol := exact.Orient(a, b, c.P) == 0
	if got := seg.CollinearPoint(p); got != wantCol {
		return rangeKnown("C19", c.Scale, fw.Failf(label, "Segment%v.CollinearPoint(%v) = %v, exact %v (scale 2^%d)", c.S, c.P, got, wantCol, c.Scale))
	}
	r := seg.Rect()
	wr := geometry.Rect{Min: geometry.Point{X: adapt.F(min(a.X, b.X), c.Scale), Y: adapt.F(min(a.Y, b.Y), c.Scale)},
		Max: geometry.Point{X: adapt.F(max(a.X, b.X), c.Scale), Y: adapt.F(max(a.Y, b.Y), c.Scale)}}
	if r != wr {
		return fw.Failf(label, "Segment%v.Rect() = %v, exact %v (scale 2^%d)", c.S, r, wr, c.Scale)
	}
	return fw.OK(label, nt)
}

func c19CheckSegSeg(c c19SegSeg) fw.Outcome {
	return rangeKnown("C19", c.Scale, c19CheckSegSegRaw(c))
}

func c19CheckSegSegRaw(c c19SegSeg) fw.Outcome {
	s, t := adapt.Seg(c.S, c.Scale), adapt.Seg(c.T, c.Scale)
	s.A.X, s.A.Y = negZeroIf(s.A.X, c.NegZero&1 != 0), negZeroIf(s.A.Y, c.NegZero&2 != 0)
	s.B.X, s.B.Y = negZeroIf(s.B.X, c.NegZero&4 != 0), negZeroIf(s.B.Y, c.NegZero&8 != 0)
	t.A.X, t.A.Y = negZeroIf(t.A.X, c.NegZero&16 != 0), negZeroIf(t.A.Y, c.NegZero&32 != 0)
	t.B.X, t.B.Y = negZeroIf(t.B.X, c.NegZero&64 != 0), negZeroIf(t.B.Y, c.NegZero&128 != 0)
	want := exact.SegsMeet(c.S, c.T)
	label := "general"
	col := exact.Orient(c.S.A, c.S.B, c.T.A) == 0 && exact.Orient(c.S.A, c.S.B, c.T.B) == 0 &&
		exact.Orient(c.T.A, c.T.B, c.S.A) == 0 && exact.Orient(c.T.A, c.T.B, c.S.B) == 0
	switch {
	case c.S.A == c.S.B || c.T.A == c.T.B:
		label = "degenerate"
	case col && want:
		label = "collinear-overlap"
	case col:
		label = "collinear-disjoint"
	case c.S.A == c.T.A || c.S.A == c.T.B || c.S.B == c.T.A || c.S.B == c.T.B:
		label = "shared-endpoint"
	case want && (exact.OnSeg(c.S, exact.Lat(c.T.A)) || exact.OnSeg(c.S, exact.Lat(c.T.B)) ||
		exact.OnSeg(c.T, exact.Lat(c.S.A)) || exact.OnSeg(c.T, exact.Lat(c.S.B))):
		label = "endpoint-touch"
	case want:
		label = "proper-crossing"
	}
	label += fmt.Sprintf("/%v", want)
	nt := boxesMeet(c.S, c.T)
	got := s.IntersectsSegment(t)
	if got != want {
		return fw.Failf(label, "Segment%v.IntersectsSegment(%v) = %v, exact %v (scale 2^%d)", c.S, c.T, got, want, c.Scale)
	}
	if rev := t.IntersectsSegment(s); rev != want {
		return fw.Failf(label, "Segment%v.IntersectsSegment(%v) = %v with operands swapped, exact %v (scale 2^%d)", c.T, c.S, rev, want, c.Scale)
	}
	wantC := exact.OnSeg(c.S, exact.Lat(c.T.A)) && exact.OnSeg(c.S, exact.Lat(c.T.B))
	if gc := s.ContainsSegment(t); gc != wantC {
		return fw.Failf(label, "Segment%v.ContainsSegment(%v) = %v, exact %v (scale 2^%d)", c.S, c.T, gc, wantC, c.Scale)
	}
	return fw.OK(label, nt)
}

// genCoord draws a lattice ordinate up to 2^20, biased to small values and shared values.
func genCoord(t *rapid.T, label string) int64 {
	switch rapid.IntRange(0, 3).Draw(t, label+"_m") {
	case 0:
		return int64(rapid.IntRange(-4, 4).Draw(t, label))
	case 1:
		return int64(rapid.IntRange(-64, 64).Draw(t, label))
	default:
		return int64(rapid.IntRange(-(1<<20), 1<<20).Draw(t, label))
	}
}

func genP(t *rapid.T, label string) exact.P {
	return exact.P{X: genCoord(t, label+"x"), Y: genCoord(t, label+"y")}
}

// genScale draws the power of two every lattice ordinate is multiplied by.  All the arithmetic the
// predicates need stays exact under such a scaling (no overflow or underflow for |s| <= 100), so the
// answers must not change: an absolute tolerance hidden in a kernel shows at the far scales, and so does a
// product of two cross products (it leaves the normal range from about 2^±260 on, while one cross product is
// still exact up to about 2^±500).
func genScale(t *rapid.T) int {
	switch rapid.IntRange(0, 5).Draw(t, "scale_m") {
	case 0:
		return rapid.IntRange(-10, 10).Draw(t, "scale")
	case 1:
		return rapid.SampledFrom(farScales).Draw(t, "farscale")
	}
	return 0
}

// extremeScales: here a product of two coordinate differences leaves the normal double range, so the
// kernels built on cross products (CollinearPoint, IntersectsSegment, ContainsSegment, the convexity and
// winding sums) lose exactness - the listed finding KF-RANGE; Raycast, built on comparisons and one
// quotient per axis, keeps answering exactly and stays asserted.
var extremeScales = []int{-1000, -600, -540, 540, 600, 1000}

func extremeRange(scale int) bool { return scale > 480 || scale < -500 }

// denormalScale: every lattice ordinate (< 2^21 in magnitude) is a denormal double.  Raycast used to be
// off there (its one-ulp nudge of a point level with an endpoint was no longer small against the
// segment); repaired together with F22, and asserted in C19's segment-point check.
const denormalScale = -1060

// genScaleX is genScale plus, one time in twelve, an extreme scale.
func genScaleX(t *rapid.T) int {
	if rapid.IntRange(0, 11).Draw(t, "xscale_m") == 0 {
		return rapid.SampledFrom(extremeScales).Draw(t, "xscale")
	}
	return genScale(t)
}

// rangeKnown turns a failure of a cross-product kernel at an extreme scale into the known finding.
func rangeKnown(property string, scale int, o fw.Outcome) fw.Outcome {
	if o.Fail != "" && o.Known == "" && extremeRange(scale) && kf.Enabled(property, "KF-RANGE") {
		o.Known = "KF-RANGE"
	}
	return o
}

// genFarAway returns, one time in eight at scale 2^0, a translation that puts the whole case far from the
// origin while every ordinate stays exactly representable: the kernels only ever need coordinate
// differences, so absolute ordinates near 2^52 must not change an answer.
func genFarAway(t *rapid.T, scale int) func(exact.P) exact.P {
	if scale != 0 || rapid.IntRange(0, 7).Draw(t, "faraway") != 0 {
		return nil
	}
	off := []int64{1 << 30, 1 << 40, 1 << 50, (1 << 52) - (1 << 21), 1 << 52, (1 << 53) - (1 << 22), -(1 << 30), -(1 << 45), -((1 << 52) - (1 << 21)), -(1 << 52), 0}
	tx := rapid.SampledFrom(off).Draw(t, "fartx")
	ty := rapid.SampledFrom(off).Draw(t, "farty")
	return func(p exact.P) exact.P { return exact.P{X: p.X + tx, Y: p.Y + ty} }
}

var farScales = []int{-470, -400, -300, -272, -200, -150, -100, -60, -40, -30, -24, -20, -16, 16, 20, 30, 40, 60, 100, 150, 200, 300, 400, 470}

// genPointOnLine draws a lattice point on the line through s (possibly outside the segment).
func genPointOnLine(t *rapid.T, s exact.Seg, label string) exact.P {
	dx, dy := s.B.X-s.A.X, s.B.Y-s.A.Y
	g := gcd(abs64(dx), abs64(dy))
	if g == 0 {
		return s.A
	}
	dx, dy = dx/g, dy/g
	k := int64(rapid.IntRange(-2, int(g)+2).Draw(t, label))
	return clampP(exact.P{X: s.A.X + k*dx, Y: s.A.Y + k*dy})
}

func clampP(p exact.P) exact.P {
	const m = 1 << 20
	return exact.P{X: max(-m, min(m, p.X)), Y: max(-m, min(m, p.Y))}
}

func abs64(a int64) int64 {
	if a < 0 {
		return -a
	}
	return a
}

func gcd(a, b int64) int64 {
	for b != 0 {
		a, b = b, a%b
	}
	return a
}

func genSeg(t *rapid.T, label string) exact.Seg {
	a := genP(t, label+"a")
	switch rapid.IntRange(0, 7).Draw(t, label+"_shape") {
	case 0:
		return exact.Seg{A: a, B: a}
	case 1:
		return exact.Seg{A: a, B: exact.P{X: genCoord(t, label+"bx"), Y: a.Y}}
	case 2:
		return exact.Seg{A: a, B: exact.P{X: a.X, Y: genCoord(t, label+"by")}}
	}
	return exact.Seg{A: a, B: genP(t, label+"b")}
}

func c19GenSegPt(t *rapid.T) c19SegPt {
	s := genSeg(t, "s")
	var p exact.P
	switch rapid.IntRange(0, 5).Draw(t, "pmode") {
	case 0:
		p = genPointOnLine(t, s, "k")
	case 1:
		p = exact.P{X: genCoord(t, "px"), Y: s.A.Y}
	case 2:
		p = exact.P{X: genCoord(t, "px"), Y: s.B.Y}
	case 3:
		p = exact.P{X: genCoord(t, "px"), Y: (s.A.Y + s.B.Y) / 2}
	default:
		p = genP(t, "p")
	}
	sc := genScaleX(t)
	if extremeRange(sc) && rapid.IntRange(0, 5).Draw(t, "denormal") == 0 {
		sc = denormalScale
	}
	if f := genFarAway(t, sc); f != nil {
		s, p = exact.Seg{A: f(s.A), B: f(s.B)}, f(p)
	}
	c := c19SegPt{S: s, P: p, Scale: sc}
	if rapid.IntRange(0, 3).Draw(t, "negzero") == 0 {
		c.NegZero = uint8(rapid.IntRange(1, 63).Draw(t, "negzeromask"))
	}
	return c
}

func c19GenSegSeg(t *rapid.T) c19SegSeg {
	s := genSeg(t, "s")
	var u exact.Seg
	switch rapid.IntRange(0, 6).Draw(t, "tmode") {
	case 0: // collinear: both ends on the line of s
		u = exact.Seg{A: genPointOnLine(t, s, "ka"), B: genPointOnLine(t, s, "kb")}
	case 1: // one end on the line of s
		u = exact.Seg{A: genPointOnLine(t, s, "ka"), B: genP(t, "tb")}
	case 2: // shares an endpoint
		u = exact.Seg{A: s.B, B: genP(t, "tb")}
	case 3: // crosses near the middle
		m := exact.P{X: (s.A.X + s.B.X) / 2, Y: (s.A.Y + s.B.Y) / 2}
		d := genP(t, "d")
		u = exact.Seg{A: clampP(exact.P{X: m.X - d.X, Y: m.Y - d.Y}), B: clampP(exact.P{X: m.X + d.X, Y: m.Y + d.Y})}
	default:
		u = genSeg(t, "t")
	}
	if rapid.Bool().Draw(t, "swap") {
		u.A, u.B = u.B, u.A
	}
	sc := genScaleX(t)
	if f := genFarAway(t, sc); f != nil {
		s, u = exact.Seg{A: f(s.A), B: f(s.B)}, exact.Seg{A: f(u.A), B: f(u.B)}
	}
	c := c19SegSeg{S: s, T: u, Scale: sc}
	if rapid.IntRange(0, 3).Draw(t, "negzero") == 0 {
		c.NegZero = uint8(rapid.IntRange(1, 255).Draw(t, "negzeromask"))
	}
	return c
}

func latticePoints(n int64) []exact.P {
	var out []exact.P
	for y := int64(0); y < n; y++ {
		for x := int64(0); x < n; x++ {
			out = append(out, exact.P{X: x, Y: y})
		}
	}
	return out
}

// signedLattice is the n x n lattice shifted so that it spans negative, zero and positive ordinates.
func signedLattice(n int64) []exact.P {
	out := latticePoints(n)
	for i := range out {
		out[i].X -= n / 2
		out[i].Y -= (n + 1) / 2
	}
	return out
}

func c19Subs() []fw.Sub {
	return []fw.Sub{
		fw.Prop[c19SegPt]{
			Name:       "segment-point",
			Exhaustive: "all (segment, point) triples on the 6x6 integer lattice (8x8 in thorough), at scales 2^0, 2^-30, 2^40 and the extreme 2^-600, 2^600",
			Enum: func(tier string, yield func(c19SegPt) bool) {
				n := int64(6)
				if tier == "thorough" {
					n = 8
				}
				pts := signedLattice(n)
				for _, sc := range []int{0, -30, 40, -600, 600} {
					for _, a := range pts {
						for _, b := range pts {
							for _, p := range pts {
								if !yield(c19SegPt{S: exact.Seg{A: a, B: b}, P: p, Scale: sc}) {
									return
								}
								if sc == 0 && (p.X == 0 || p.Y == 0) && !yield(c19SegPt{S: exact.Seg{A: a, B: b}, P: p, Scale: sc, NegZero: 48}) {
									return
								}
							}
						}
					}
				}
			},
			Checks: func(tier string) int {
				if tier == "thorough" {
					return 1500000
				}
				return 60000
			},
			Gen:   c19GenSegPt,
			Check: c19CheckSegPt,
		},
		fw.Prop[c19SegSeg]{
			Name:       "segment-segment",
			Exhaustive: "all (segment, segment) pairs on the 6x6 integer lattice (8x8 in thorough) at scale 2^0, and on the 4x4 lattice at scales 2^-30, 2^40 and 2^-600",
			Enum: func(tier string, yield func(c19SegSeg) bool) {
				n := int64(6)
				if tier == "thorough" {
					n = 8
				}
				pts := signedLattice(n)
				for _, a := range pts {
					for _, b := range pts {
						for _, c := range pts {
							for _, d := range pts {
								if !yield(c19SegSeg{S: exact.Seg{A: a, B: b}, T: exact.Seg{A: c, B: d}}) {
									return
								}
							}
						}
					}
				}
				// the 4x4 sub-lattice again at two far scales
				small := signedLattice(4)
				for _, sc := range []int{-30, 40, -600} {
					for _, a := range small {
						for _, b := range small {
							for _, c := range small {
								for _, d := range small {
									if !yield(c19SegSeg{S: exact.Seg{A: a, B: b}, T: exact.Seg{A: c, B: d}, Scale: sc}) {
										return
									}
								}
							}
						}
					}
				}
			},
			Checks: func(tier string) int {
				if tier == "thorough" {
					return 1500000
				}
				return 60000
			},
			Gen:   c19GenSegSeg,
			Check: c19CheckSegSeg,
		},
		fw.Prop[c19Dbl]{
			Name: "doubles-identities",
			Checks: func(tier string) int {
				if tier == "thorough" {
					return 1500000
				}
				return 100000
			},
			Gen:   c19GenDbl,
			Check: c19CheckDbl,
		},
	}
}

func TestC19(t *testing.T) { fw.Main(t, "C19", c19Subs(), nil) }

// --- identities that hold for arbitrary doubles ---------------------------------------------------------
//
// The exact oracle needs lattice coordinates.  A few facts are decidable for any doubles by comparisons alone,
// and the kernels owe them to every caller: two segments that share an end point (bit for bit) intersect, in
// both operand orders; a segment contains its own ends, itself, and intersects itself; a point outside a
// segment's bounding box is neither on it nor contained in it; a point level with or above the top end, below
// the bottom end, or at or right of the right end is not crossed by the ray; segments with disjoint boxes do
// not intersect.  Decimals such as 7.7 or 2.4, integers beyond 2^26, 2^53 and denormals are where a formula
// that is exact on small grids stops being exact.

type c19Dbl struct {
	S [4]F `json:"s"` // ax, ay, bx, by
	T [4]F `json:"t"`
	P [2]F `json:"p"`
	// Multiples: T starts (and, unless it is a T-junction, ends) on S by construction, so the two intersect
	Multiples bool `json:"multiples,omitempty"`
	// Axis: S is vertical or horizontal, T is perpendicular to it and starts on it (all decided by comparisons)
	Axis bool `json:"axis,omitempty"`
	// Ints: integer ordinates of very different magnitudes (1 next to 2^53); asserted against rational arithmetic
	// whenever every difference and every product of two differences is itself a double
	Ints bool `json:"ints,omitempty"`
}

var c19DblPool = []float64{0, math.Copysign(0, -1), 1, -1, 0.1, 0.2, 0.3, 0.7, 0.8, 1.1, 2.3, 2.4, 3, 3.3, 7.7, 8.7, 9.9, 1e-5, 123.456, -179.9999999,
	1e6 + 0.5, 5e7 + 1, 67108865, 1 << 40, 9007199254740991, 9007199254740992, 1e15 + 0.25, 5e-324, 1e-310, 2.2250738585072014e-308, 1e300, -1e300, 22, 15, 25, 7}

func genDbl(t *rapid.T, label string) F {
	switch rapid.IntRange(0, 4).Draw(t, label+"_m") {
	case 0:
		return F(rapid.Float64Range(-200, 200).Draw(t, label+"_f"))
	case 1:
		v := rapid.SampledFrom(c19DblPool).Draw(t, label+"_pn")
		for i := rapid.IntRange(1, 2).Draw(t, label+"_ulps"); i > 0; i-- {
			v = math.Nextafter(v, math.Inf(1-2*rapid.IntRange(0, 1).Draw(t, label+"_dir")))
		}
		return F(v)
	}
	v := rapid.SampledFrom(c19DblPool).Draw(t, label+"_p")
	if rapid.Bool().Draw(t, label+"_neg") {
		v = -v
	}
	return F(v)
}

func c19GenDbl(t *rapid.T) c19Dbl {
	var c c19Dbl
	for i := range c.S {
		c.S[i] = genDbl(t, fmt.Sprintf("s%d", i))
		c.T[i] = genDbl(t, fmt.Sprintf("t%d", i))
	}
	c.P = [2]F{genDbl(t, "px"), genDbl(t, "py")}
	switch rapid.IntRange(0, 5).Draw(t, "share") {
	case 0:
		c.T[0], c.T[1] = c.S[0], c.S[1] // A == A
	case 1:
		c.T[2], c.T[3] = c.S[2], c.S[3] // B == B
	case 2:
		c.T[0], c.T[1] = c.S[2], c.S[3] // chain
	case 3:
		c.T[2], c.T[3] = c.S[0], c.S[1]
	}
	switch rapid.IntRange(0, 5).Draw(t, "pmode") {
	case 0: // one ulp past an end, on the same vertical / horizontal
		c.P = [2]F{c.S[2], F(math.Nextafter(float64(c.S[3]), math.Inf(1-2*rapid.IntRange(0, 1).Draw(t, "pdir"))))}
	case 1:
		c.P = [2]F{F(math.Nextafter(float64(c.S[0]), math.Inf(1-2*rapid.IntRange(0, 1).Draw(t, "pdir2")))), c.S[1]}
	case 2: // on the diagonal of the segment's direction, just past the far end
		c.P = [2]F{F(math.Nextafter(float64(c.S[2]), math.Inf(1))), F(math.Nextafter(float64(c.S[3]), math.Inf(1)))}
	case 3, 4: // a few ulps (or denormal steps) away from an end, independently in x and in y
		e := rapid.IntRange(0, 1).Draw(t, "pend") * 2
		step := func(v float64, label string) float64 {
			dir := math.Inf(1 - 2*rapid.IntRange(0, 1).Draw(t, label+"d"))
			for i := rapid.IntRange(0, 2).Draw(t, label+"n"); i > 0; i-- {
				v = math.Nextafter(v, dir)
			}
			return v
		}
		c.P = [2]F{F(step(float64(c.S[e]), "px")), F(step(float64(c.S[e+1]), "py"))}
	}
	if rapid.IntRange(0, 5).Draw(t, "multiples") == 0 {
		// exact integer multiples of one wide-mantissa vector V from a common origin: S = O..O+k3*V, T inside it or
		// leaving it from a point on it - collinear by construction, with products no double can hold
		vx := float64(rapid.Int64Range(-(1<<40), 1<<40).Draw(t, "vx"))
		vy := float64(rapid.Int64Range(-(1<<40), 1<<40).Draw(t, "vy"))
		ox, oy := float64(rapid.Int64Range(-1000, 1000).Draw(t, "ox")), float64(rapid.Int64Range(-1000, 1000).Draw(t, "oy"))
		k1, k2 := float64(rapid.IntRange(0, 8).Draw(t, "k1")), float64(rapid.IntRange(0, 8).Draw(t, "k2"))
		c.S = [4]F{F(ox), F(oy), F(ox + 8*vx), F(oy + 8*vy)}
		c.T = [4]F{F(ox + k1*vx), F(oy + k1*vy), F(ox + k2*vx), F(oy + k2*vy)}
		if rapid.Bool().Draw(t, "tjunction") {
			// a T-junction: the far end is an arbitrary lattice point, and everything is kept small enough for the
			// products to be exact (otherwise "starts on S" is not something float arithmetic owes an answer to:
			// a far end that happens to lie almost on the line of S makes the two directions parallel after rounding)
			vx = float64(rapid.Int64Range(-(1<<20), 1<<20).Draw(t, "tjvx"))
			vy = float64(rapid.Int64Range(-(1<<20), 1<<20).Draw(t, "tjvy"))
			c.S = [4]F{F(ox), F(oy), F(ox + 8*vx), F(oy + 8*vy)}
			c.T = [4]F{F(ox + k1*vx), F(oy + k1*vy), F(rapid.Int64Range(-(1<<24), 1<<24).Draw(t, "tjx")), F(rapid.Int64Range(-(1<<24), 1<<24).Draw(t, "tjy"))}
		}
		c.Multiples = true
	} else if rapid.IntRange(0, 5).Draw(t, "axis") == 0 {
		// a T-junction of an axis-parallel segment and a perpendicular stem of any length, denormal ones included
		x0, y0, y1 := float64(genDbl(t, "ax0")), float64(genDbl(t, "ay0")), float64(genDbl(t, "ay1"))
		ys := []float64{y0, y1}
		if m := y0/2 + y1/2; m >= math.Min(y0, y1) && m <= math.Max(y0, y1) {
			ys = append(ys, m)
		}
		ty := rapid.SampledFrom(ys).Draw(t, "aty")
		tx := float64(genDbl(t, "atx"))
		if rapid.Bool().Draw(t, "astep") {
			tx = x0
			dir := math.Inf(1 - 2*rapid.IntRange(0, 1).Draw(t, "astepd"))
			for i := rapid.IntRange(1, 3).Draw(t, "astepn"); i > 0; i-- {
				tx = math.Nextafter(tx, dir)
			}
		}
		c.S = [4]F{F(x0), F(y0), F(x0), F(y1)}
		c.T = [4]F{F(x0), F(ty), F(tx), F(ty)}
		if rapid.Bool().Draw(t, "aswap") { // horizontal S, vertical stem
			c.S = [4]F{c.S[1], c.S[0], c.S[3], c.S[2]}
			c.T = [4]F{c.T[1], c.T[0], c.T[3], c.T[2]}
		}
		if rapid.Bool().Draw(t, "arev") {
			c.T = [4]F{c.T[2], c.T[3], c.T[0], c.T[1]}
		}
		c.Axis = true
	} else if rapid.IntRange(0, 4).Draw(t, "ints") == 0 {
		// magnitudes that no single scale holds: a segment 2^53 long next to one of length 2
		iv := func(label string) F {
			v := float64(rapid.SampledFrom(c19IntPool).Draw(t, label))
			switch rapid.IntRange(0, 5).Draw(t, label+"m") {
			case 0:
				v = -v
			case 1:
				v = float64(rapid.IntRange(-4, 4).Draw(t, label+"s"))
			}
			return F(v)
		}
		for i := range c.S {
			c.S[i], c.T[i] = iv(fmt.Sprintf("is%d", i)), iv(fmt.Sprintf("it%d", i))
		}
		if rapid.Bool().Draw(t, "iaxis") { // a long axis-parallel segment, the other one short and near its start or its end
			c.S[3] = c.S[1]
		}
		if rapid.Bool().Draw(t, "inear") {
			// a very long horizontal segment and a short one that crosses its line within a unit or two of one of its
			// ends - just before it, just behind it, or on it: t (or u) is within 2^-50 of 0 or 1
			x0, y0 := float64(rapid.IntRange(-3, 3).Draw(t, "inx0")), float64(rapid.IntRange(-3, 3).Draw(t, "iny0"))
			l := float64(rapid.SampledFrom([]int64{1 << 40, 1 << 50, 1 << 52, 1 << 53}).Draw(t, "inl"))
			if x0 != 0 && l == 1<<53 {
				l = 1 << 52
			}
			c.S = [4]F{F(x0), F(y0), F(x0 + l), F(y0)}
			ex := x0 // the end the short segment passes by
			if rapid.Bool().Draw(t, "infar") {
				ex = x0 + l
			}
			d := func(label string) float64 { return float64(rapid.IntRange(0, 4).Draw(t, label)) }
			c.T = [4]F{F(ex - d("ina")), F(y0 + d("inb")), F(ex + d("inc")), F(y0 - d("ind"))}
			if rapid.Bool().Draw(t, "inrev") {
				c.S = [4]F{c.S[2], c.S[3], c.S[0], c.S[1]}
			}
			if rapid.Bool().Draw(t, "inswapxy") {
				c.S = [4]F{c.S[1], c.S[0], c.S[3], c.S[2]}
				c.T = [4]F{c.T[1], c.T[0], c.T[3], c.T[2]}
			}
		}
		c.Ints = true
	}
	return c
}

var c19IntPool = []int64{0, 1, 2, 3, 4, 5, 7, 8, 1 << 10, 1 << 26, 1<<26 + 1, 1 << 27, 1 << 30, 1 << 40, 1 << 52, 1 << 53, 1<<53 - 1, 1<<53 - 2, 1<<52 + 1}

// c19IntsExact: are all eight ordinates integers, and are the differences the kernels form - and every product of an x
// difference with a y difference among them, and every difference of two such products - exactly doubles?  Then every
// intermediate value is exact, the quotients t and u are correctly rounded quotients of exact values (a quotient of two
// doubles p > q > 0 is at least 1 + 2^-52 after rounding, one of p < 0 < q stays negative), and the answer is owed
// exactly.  all = false looks only at the differences of the general (non-collinear) path of s.IntersectsSegment(u):
// u.A - s.A, s.B - s.A, u.B - u.A; all = true at every pair of points (the collinear path goes through Raycast).
func c19IntsExact(s, u geometry.Segment, all bool) bool {
	pts := []geometry.Point{s.A, s.B, u.A, u.B}
	pairs := [][2]int{{2, 0}, {1, 0}, {3, 2}}
	if all {
		pairs = nil
		for i := range pts {
			for j := range pts {
				pairs = append(pairs, [2]int{i, j})
			}
		}
	}
	isDouble := func(v *big.Int) bool {
		f, acc := new(big.Float).SetInt(v).Float64()
		return acc == big.Exact && !math.IsInf(f, 0)
	}
	toInt := func(v float64) (*big.Int, bool) {
		if v != math.Trunc(v) || math.Abs(v) > 1<<53 {
			return nil, false
		}
		b, _ := new(big.Float).SetFloat64(v).Int(nil)
		return b, true
	}
	var dx, dy []*big.Int
	for _, pr := range pairs {
		for axis := 0; axis < 2; axis++ {
			va, vb := pts[pr[0]].X, pts[pr[1]].X
			if axis == 1 {
				va, vb = pts[pr[0]].Y, pts[pr[1]].Y
			}
			a, ok1 := toInt(va)
			b, ok2 := toInt(vb)
			if !ok1 || !ok2 {
				return false
			}
			d := new(big.Int).Sub(a, b)
			if !isDouble(d) {
				return false
			}
			if axis == 0 {
				dx = append(dx, d)
			} else {
				dy = append(dy, d)
			}
		}
	}
	var prods []*big.Int
	for _, a := range dx {
		for _, b := range dy {
			pr := new(big.Int).Mul(a, b)
			if !isDouble(pr) {
				return false
			}
			prods = append(prods, pr)
		}
	}
	if !all {
		// dx, dy hold (cmp, r, s); the kernel subtracts cmpx*ry - cmpy*rx, cmpx*sy - cmpy*sx, rx*sy - ry*sx
		det := func(i, j int) *big.Int {
			return new(big.Int).Sub(new(big.Int).Mul(dx[i], dy[j]), new(big.Int).Mul(dy[i], dx[j]))
		}
		return isDouble(det(0, 1)) && isDouble(det(0, 2)) && isDouble(det(1, 2))
	}
	for _, a := range prods {
		for _, b := range prods {
			if !isDouble(new(big.Int).Sub(a, b)) {
				return false
			}
		}
	}
	return true
}

// c19IntsOrient: the side of c relative to the line a -> b, in arbitrary precision (integer ordinates).
func c19IntsOrient(a, b, c geometry.Point) int {
	bi := func(v float64) *big.Int { b, _ := new(big.Float).SetFloat64(v).Int(nil); return b }
	l := new(big.Int).Mul(new(big.Int).Sub(bi(b.X), bi(a.X)), new(big.Int).Sub(bi(c.Y), bi(a.Y)))
	r := new(big.Int).Mul(new(big.Int).Sub(bi(b.Y), bi(a.Y)), new(big.Int).Sub(bi(c.X), bi(a.X)))
	return l.Cmp(r)
}

// c19IntsMeet: do the two closed segments share a point (integer ordinates, arbitrary precision)?
func c19IntsMeet(s, u geometry.Segment) bool {
	bi := func(v float64) *big.Int { b, _ := new(big.Float).SetFloat64(v).Int(nil); return b }
	orient := func(a, b, c geometry.Point) int {
		l := new(big.Int).Mul(new(big.Int).Sub(bi(b.X), bi(a.X)), new(big.Int).Sub(bi(c.Y), bi(a.Y)))
		r := new(big.Int).Mul(new(big.Int).Sub(bi(b.Y), bi(a.Y)), new(big.Int).Sub(bi(c.X), bi(a.X)))
		return l.Cmp(r)
	}
	inBox := func(a, b, p geometry.Point) bool {
		return math.Min(a.X, b.X) <= p.X && p.X <= math.Max(a.X, b.X) && math.Min(a.Y, b.Y) <= p.Y && p.Y <= math.Max(a.Y, b.Y)
	}
	o1, o2, o3, o4 := orient(s.A, s.B, u.A), orient(s.A, s.B, u.B), orient(u.A, u.B, s.A), orient(u.A, u.B, s.B)
	if o1*o2 < 0 && o3*o4 < 0 {
		return true
	}
	return o1 == 0 && inBox(s.A, s.B, u.A) || o2 == 0 && inBox(s.A, s.B, u.B) || o3 == 0 && inBox(u.A, u.B, s.A) || o4 == 0 && inBox(u.A, u.B, s.B)
}

// c19CheckDbl: the identities below; a failure of the collinear-multiples identity (it rests on cross products) is the listed finding KF-RANGE
// when some non-zero coordinate difference of the case lies beyond 2^±480 (same input-side model as extremeRange).
func c19CheckDbl(c c19Dbl) fw.Outcome {
	o := c19CheckDblRaw(c)
	if o.Fail != "" && o.Known == "" && kf.Enabled("C19", "KF-RANGE") && o.Label == "doubles/axis-junction" {
		// the products of two non-zero differences in this configuration are (length of the stem) x (length of S) and
		// (length of the stem) x (distance of the junction from the first end of S); the identity is owed unless one
		// of them leaves the double range altogether (rounds to zero, or overflows)
		l1 := func(ax, ay, bx, by F) float64 {
			return math.Abs(float64(bx)-float64(ax)) + math.Abs(float64(by)-float64(ay))
		}
		ls, lt := l1(c.S[0], c.S[1], c.S[2], c.S[3]), l1(c.T[0], c.T[1], c.T[2], c.T[3])
		factors := []float64{ls}
		for _, e := range [][2]F{{c.T[0], c.T[1]}, {c.T[2], c.T[3]}} {
			// the offset along S of either end of the stem from the first end of S (one of the two is the junction)
			var off float64
			if c.S[0] == c.S[2] {
				off = math.Abs(float64(e[1]) - float64(c.S[1]))
			} else {
				off = math.Abs(float64(e[0]) - float64(c.S[0]))
			}
			factors = append(factors, off)
		}
		for _, f := range factors {
			if pr := f * lt; (f != 0 && lt != 0 && pr == 0) || math.IsInf(pr, 0) || math.IsInf(f, 0) || math.IsInf(lt, 0) {
				o.Known = "KF-RANGE"
			}
		}
		return o
	}
	if o.Fail == "" || o.Known != "" || !kf.Enabled("C19", "KF-RANGE") || o.Label != "doubles/collinear-multiples" {
		return o
	}
	vals := []float64{float64(c.S[0]), float64(c.S[2]), float64(c.T[0]), float64(c.T[2])}
	vals2 := []float64{float64(c.S[1]), float64(c.S[3]), float64(c.T[1]), float64(c.T[3])}
	for _, vs := range [][]float64{vals, vals2} {
		for i := range vs {
			for j := range vs {
				if d := math.Abs(vs[i] - vs[j]); d != 0 && (d < math.Ldexp(1, -480) || d > math.Ldexp(1, 480)) {
					o.Known = "KF-RANGE"
					return o
				}
			}
		}
	}
	return o
}

// c19MultiplesDecidable: the identity "T starts on S, so they intersect" is owed in two configurations only. Either all
// four points are exactly collinear (decided in rational arithmetic): then every pair of products the kernels subtract
// is equal as real numbers, hence rounds to the same double, and the answer rests on comparisons (integer ordinates
// below 2^52, so that the differences themselves are exact).  Or all ordinates are integers below 2^25 in magnitude, so every difference and every product is exact, and T's first point lies exactly
// on S.  A far end given as an arbitrary double (0.30000000000000004) can lie so close to the line of S that the
// rounded directions are parallel; nothing in the property promises an answer there.
func c19MultiplesDecidable(s, u geometry.Segment) bool {
	rat := func(v float64) *big.Rat { r := new(big.Rat); r.SetFloat64(v); return r }
	orient := func(a, b, p geometry.Point) int {
		l := new(big.Rat).Mul(new(big.Rat).Sub(rat(b.X), rat(a.X)), new(big.Rat).Sub(rat(p.Y), rat(a.Y)))
		r := new(big.Rat).Mul(new(big.Rat).Sub(rat(b.Y), rat(a.Y)), new(big.Rat).Sub(rat(p.X), rat(a.X)))
		return l.Cmp(r)
	}
	if !s.Rect().ContainsPoint(u.A) || orient(s.A, s.B, u.A) != 0 {
		return false
	}
	// integers throughout: below 2^52 every difference is exact (enough for the collinear configuration), below 2^25
	// every product is exact as well
	limit := float64(1 << 25)
	if orient(s.A, s.B, u.B) == 0 && s.A != s.B {
		limit = 1 << 52
	}
	for _, v := range []float64{s.A.X, s.A.Y, s.B.X, s.B.Y, u.A.X, u.A.Y, u.B.X, u.B.Y} {
		if v != math.Trunc(v) || math.Abs(v) > limit {
			return false
		}
	}
	return true
}

func c19CheckDblRaw(c c19Dbl) fw.Outcome {
	pt := func(x, y F) geometry.Point { return geometry.Point{X: float64(x), Y: float64(y)} }
	s := geometry.Segment{A: pt(c.S[0], c.S[1]), B: pt(c.S[2], c.S[3])}
	u := geometry.Segment{A: pt(c.T[0], c.T[1]), B: pt(c.T[2], c.T[3])}
	p := pt(c.P[0], c.P[1])
	for _, v := range []float64{s.A.X, s.A.Y, s.B.X, s.B.Y, u.A.X, u.A.Y, u.B.X, u.B.Y, p.X, p.Y} {
		if math.IsNaN(v) || math.IsInf(v, 0) {
			return fw.Outcome{Label: "non-finite", Skip: true}
		}
	}
	label := "doubles"
	// a segment and its own ends
	for _, e := range []geometry.Point{s.A, s.B} {
		if r := s.Raycast(e); !r.On {
			return fw.Failf(label, "Segment%v.Raycast(its own end %v).On = false", s, e)
		}
		if !s.ContainsPoint(e) || !s.CollinearPoint(e) {
			return fw.Failf(label, "Segment%v: ContainsPoint / CollinearPoint of its own end %v is false", s, e)
		}
	}
	if !s.ContainsSegment(s) || !s.IntersectsSegment(s) {
		return fw.Failf(label, "Segment%v does not contain / intersect itself", s)
	}
	rev := geometry.Segment{A: s.B, B: s.A}
	if !s.IntersectsSegment(rev) || !rev.IntersectsSegment(s) || !s.ContainsSegment(rev) {
		return fw.Failf(label, "Segment%v and the same segment reversed: intersects / contains is false", s)
	}
	// shared end points
	shared := s.A == u.A || s.A == u.B || s.B == u.A || s.B == u.B
	if shared {
		label = "doubles/shared-end"
		if !s.IntersectsSegment(u) || !u.IntersectsSegment(s) {
			return fw.Failf(label, "Segment%v and Segment%v share an end point but IntersectsSegment = %v / %v", s, u, s.IntersectsSegment(u), u.IntersectsSegment(s))
		}
	}
	if c.Multiples && !c19MultiplesDecidable(s, u) {
		// (a replayed or shrunk case outside the two configurations the identity is stated for)
		label = "doubles/multiples-undecidable"
	} else if c.Multiples {
		label = "doubles/collinear-multiples"
		if !s.IntersectsSegment(u) || !u.IntersectsSegment(s) {
			return fw.Failf(label, "Segment%v starts on Segment%v (integer multiples of one vector from a common origin) but IntersectsSegment = %v / %v", u, s, s.IntersectsSegment(u), u.IntersectsSegment(s))
		}
		if !s.Raycast(u.A).On || !s.ContainsPoint(u.A) {
			return fw.Failf(label, "%v is an integer multiple along Segment%v but Raycast.On / ContainsPoint is false", u.A, s)
		}
	}
	if c.Ints {
		strict := c19IntsExact(s, u, true)
		asserted := false
		want := false
		if strict || c19IntsExact(s, u, false) || c19IntsExact(u, s, false) {
			want = c19IntsMeet(s, u)
		}
		// one operand order at a time: the general path is exact when its three differences are, provided the
		// collinear branch (which goes through Raycast and other differences) is not the one taken
		if strict || (c19IntsExact(s, u, false) && c19IntsOrient(s.A, s.B, u.A) != 0) {
			asserted = true
			if got := s.IntersectsSegment(u); got != want {
				return fw.Failf("doubles/ints-exact", "Segment%v.IntersectsSegment(Segment%v) = %v; in rational arithmetic the answer is %v, and every difference and product involved is exactly a double", s, u, got, want)
			}
		}
		if strict || (c19IntsExact(u, s, false) && c19IntsOrient(u.A, u.B, s.A) != 0) {
			asserted = true
			if got := u.IntersectsSegment(s); got != want {
				return fw.Failf("doubles/ints-exact", "Segment%v.IntersectsSegment(Segment%v) = %v; in rational arithmetic the answer is %v, and every difference and product involved is exactly a double", u, s, got, want)
			}
		}
		if strict {
			for _, e := range []geometry.Point{u.A, u.B} {
				on := c19IntsMeet(s, geometry.Segment{A: e, B: e})
				if r := s.Raycast(e); r.On != on || s.ContainsPoint(e) != on {
					return fw.Failf("doubles/ints-exact", "Segment%v.Raycast(%v).On = %v, ContainsPoint = %v; in rational arithmetic the point is on the segment: %v", s, e, r.On, s.ContainsPoint(e), on)
				}
			}
		}
		if !asserted {
			return fw.OK("doubles/ints-not-exact", false)
		}
		label = "doubles/ints-exact"
	}
	if c.Axis {
		vert, horiz := s.A.X == s.B.X, s.A.Y == s.B.Y
		on := func(q geometry.Point) bool { return s.Rect().ContainsPoint(q) }
		perp := (vert && u.A.Y == u.B.Y) || (horiz && u.A.X == u.B.X)
		if !(vert || horiz) || !perp || !(on(u.A) || on(u.B)) {
			return fw.Outcome{Label: "doubles/axis-junction-malformed", Skip: true}
		}
		label = "doubles/axis-junction"
		if !s.IntersectsSegment(u) || !u.IntersectsSegment(s) {
			return fw.Failf(label, "Segment%v is perpendicular to the axis-parallel Segment%v and has an end on it, but IntersectsSegment = %v / %v", u, s, s.IntersectsSegment(u), u.IntersectsSegment(s))
		}
		for _, e := range []geometry.Point{u.A, u.B} {
			if on(e) && (!s.Raycast(e).On || !s.ContainsPoint(e)) {
				return fw.Failf(label, "%v lies on the axis-parallel Segment%v but Raycast.On / ContainsPoint is false", e, s)
			}
		}
	}
	// boxes
	sr, ur := s.Rect(), u.Rect()
	if !sr.IntersectsRect(ur) && (s.IntersectsSegment(u) || u.IntersectsSegment(s)) {
		return fw.Failf(label, "Segment%v and Segment%v have disjoint bounding boxes but intersect", s, u)
	}
	if !sr.ContainsPoint(p) {
		if label == "doubles" {
			label = "doubles/point-outside-box"
		}
		if r := s.Raycast(p); r.On || s.ContainsPoint(p) {
			return fw.Failf(label, "point %v is outside the bounding box of Segment%v but Raycast.On = %v, ContainsPoint = %v", p, s, r.On, s.ContainsPoint(p))
		}
		if s.ContainsSegment(geometry.Segment{A: p, B: p}) || s.ContainsSegment(geometry.Segment{A: s.A, B: p}) {
			return fw.Failf(label, "Segment%v contains a segment that ends at %v, outside its bounding box", s, p)
		}
	}
	// where the ray cannot cross
	lo, hi := math.Min(s.A.Y, s.B.Y), math.Max(s.A.Y, s.B.Y)
	if r := s.Raycast(p); r.In && (p.Y < lo || p.Y >= hi || p.X >= math.Max(s.A.X, s.B.X)) {
		return fw.Failf(label, "Segment%v.Raycast(%v).In = true although the point is not level with the half-open height range or lies at / right of the right end", s, p)
	}
	if r := s.Raycast(p); !r.In && !r.On && p.Y >= lo && p.Y < hi && p.X < math.Min(s.A.X, s.B.X) {
		return fw.Failf(label, "Segment%v.Raycast(%v).In = false although the point is level with the half-open height range and left of the whole segment", s, p)
	}
	return fw.OK(label, shared || c.Multiples || c.Axis || c.Ints || !sr.ContainsPoint(p))
}
