// Package kf reads /verif/KNOWN_FINDINGS.txt (never written at run time).
//
//	known: property=C03 id=KF-F6 model=holeFill example=<path> :: <what fails>
//	fixed: property=C19 <commit> <what failed>
package kf

import (
	"bufio"
	"os"
	"path/filepath"
	"strings"
	"sync"

	"verifharness/fw"
)

type Entry struct {
	Property, ID, Model, Example, What string
}

var (
	once    sync.Once
	entries []Entry
)

func load() {
	f, err := os.Open(filepath.Join(fw.Root(), "KNOWN_FINDINGS.txt"))
	if err != nil {
		return
	}
	defer f.Close()
	sc := bufio.NewScanner(f)
	sc.Buffer(make([]byte, 1<<20), 1<<20)
	for sc.Scan() {
		line := strings.TrimSpace(sc.Text())
		if !strings.HasPrefix(line, "known:") {
			continue
		}
		line = strings.TrimSpace(strings.TrimPrefix(line, "known:"))
		head, what := line, ""
		if i := strings.Index(line, "::"); i >= 0 {
			head, what = strings.TrimSpace(line[:i]), strings.TrimSpace(line[i+2:])
		}
		e := Entry{What: what}
		for _, tok := range strings.Fields(head) {
			k, v, ok := strings.Cut(tok, "=")
			if !ok {
				continue
			}
			switch k {
			case "property":
				e.Property = v
			case "id":
				e.ID = v
			case "model":
				e.Model = v
			case "example":
				e.Example = v
			}
		}
		if e.ID != "" {
			entries = append(entries, e)
		}
	}
}

// Enabled reports whether a "known:" line with this id is listed for the property.
func Enabled(property, id string) bool {
	once.Do(load)
	for _, e := range entries {
		if e.ID == id && e.Property == property {
			return true
		}
	}
	return false
}

// For returns the entries listed for a property.
func For(property string) []Entry {
	once.Do(load)
	var out []Entry
	for _, e := range entries {
		if e.Property == property {
			out = append(out, e)
		}
	}
	return out
}
