// Package gj generates GeoJSON texts from a grammar, with structured mutations
// and rendering noise (member order, duplicates, escaped keys, whitespace,
// number literals) — DESIGN.md §3.3.  Every choice is drawn through rapid, so
// a text is a pure function of the draws and shrinks with them.
package gj

import (
	"fmt"
	"strconv"
	"strings"

	"pgregory.net/rapid"
)

// Opts steers the generator.
type Opts struct {
	Mutations     int  // how many structural mutations may be applied (0 = well-formed documents)
	AllowOverflow bool // number literals that overflow a double (C05 only)
	MaxDepth      int  // nesting of features / collections
	Noise         bool // whitespace, duplicate and escaped keys, member shuffling
	Lattice       bool // prefer small integer coordinates (discriminating predicates)
	NoCircle      bool
	ValidLonLat   bool // keep coordinates within lon/lat bounds mostly
	LongBias      bool // many lines / rings of 34..63 positions: indexed under a small threshold, not under the default 64
	RectBias      bool // many (near-)rectangular polygons and plain points: the inputs the representation options act on
}

type gen struct {
	t          *rapid.T
	o          Opts
	mut        int
	invalidDoc bool // this document gets a few out-of-range ordinates
}

var literalPool = []string{
	"0", "-0", "-0.0e-0", "1E+2", "0.1", "1e2", "2.5e-3", "100", "-100", "0.30000000000000004", "1.7976931348623157e308",
	"5e-324", "1e-400", "9007199254740993", "123456789012345678", "-122.44154334068298", "37.73179457567642",
	"179.99999999999997", "180", "-180", "90", "-90", "180.00000001", "-90.5", "1.0", "1.50", "3.141592653589793", "0.000001",
	"4.9406564584124654e-324", "2.2250738585072014e-308", "1e21", "1e-7", "123456789.12345678",
	// whole numbers around the edges of the 64-bit integers, and the largest double
	"9223372036854775807", "9223372036854775808", "-9223372036854775808", "-9223372036854775809", "9300000000000000000", "18446744073709551616",
	"-1.7976931348623157e308",
}

var overflowPool = []string{"1e999", "-1e999", "1e309", "-1.8e308"}

func (g *gen) num() string {
	t := g.t
	if g.o.AllowOverflow && rapid.IntRange(0, 30).Draw(t, "ovf") == 0 {
		return rapid.SampledFrom(overflowPool).Draw(t, "ovflit")
	}
	if g.invalidDoc && rapid.IntRange(0, 15).Draw(t, "invalidord") == 0 {
		return rapid.SampledFrom([]string{"180.5", "-90.5", "999", "-181", "91", "-1e3"}).Draw(t, "invalidlit")
	}
	m := rapid.IntRange(0, 9).Draw(t, "numkind")
	if g.o.Lattice { // lattice documents are purely lattice (apart from injected out-of-range ordinates), so long lines keep a lattice box
		return strconv.Itoa(rapid.IntRange(-4, 12).Draw(t, "lat")) // extent 16: the quad split lines of a full-range box are lattice lines
	}
	switch {
	case m < 3:
		return strconv.Itoa(rapid.IntRange(-20, 20).Draw(t, "int"))
	case m < 5:
		if g.o.ValidLonLat {
			return strconv.FormatFloat(rapid.Float64Range(-89, 89).Draw(t, "flt"), 'f', -1, 64)
		}
		return strconv.FormatFloat(rapid.Float64Range(-200, 200).Draw(t, "flt"), 'g', -1, 64)
	case m < 6:
		return strconv.FormatFloat(rapid.Float64().Draw(t, "anyflt"), 'g', -1, 64)
	case m < 9 && !g.o.ValidLonLat:
		return rapid.SampledFrom(literalPool).Draw(t, "lit")
	}
	return strconv.Itoa(rapid.IntRange(-80, 80).Draw(t, "int2"))
}

func (g *gen) ws() string {
	if !g.o.Noise || rapid.IntRange(0, 5).Draw(g.t, "wsm") != 0 {
		return ""
	}
	n := rapid.IntRange(1, 3).Draw(g.t, "wsn")
	var b strings.Builder
	for i := 0; i < n; i++ {
		b.WriteByte(" \t\r\n"[rapid.IntRange(0, 3).Draw(g.t, "wsc")])
	}
	return b.String()
}

func (g *gen) mutate(label string) bool {
	if g.mut <= 0 {
		return false
	}
	if rapid.IntRange(0, 11).Draw(g.t, "mut_"+label) == 0 {
		g.mut--
		return true
	}
	return false
}

// wrongKind returns a JSON value of some other kind.
func (g *gen) wrongKind() string {
	return rapid.SampledFrom([]string{`null`, `true`, `"x"`, `5`, `{}`, `[]`, `{"a":1,"b":2}`, `[[]]`, `"1"`, `false`, `[null]`, `{"type":"Point"}`,
		`{"a":[1,2],"b":[3,4]}`, `{"a":[[0,0],[1,0],[1,1],[0,0]]}`, `{"a":[[1,2],[3,4]],"b":[[5,6],[7,8]]}`, `{"0":[0,0],"1":[1,1],"2":[2,0],"3":[0,0]}`}).Draw(g.t, "wrongkind")
}

func (g *gen) position(dims int, allowNull bool) string {
	t := g.t
	if g.mutate("pos") {
		switch rapid.IntRange(0, 6).Draw(t, "posmut") {
		case 0:
			return "[" + g.num() + "]" // too short
		case 1:
			return "[]"
		case 2:
			return "[" + g.num() + "," + g.wrongKindScalar() + "]"
		case 3:
			return "[" + g.num() + "," + g.num() + "," + g.wrongKindScalar() + "]"
		case 4:
			return g.wrongKind()
		case 5: // five or more elements (unspecified)
			return "[" + g.num() + "," + g.num() + "," + g.num() + "," + g.num() + "," + rapid.SampledFrom([]string{"1", `"x"`, "null", "[1]"}).Draw(t, "fifth") + "]"
		default:
			return "[" + g.num() + ",null]"
		}
	}
	var parts []string
	for i := 0; i < dims; i++ {
		if allowNull && rapid.IntRange(0, 40).Draw(t, "nullord") == 0 {
			parts = append(parts, "null")
		} else {
			parts = append(parts, g.num())
		}
	}
	return "[" + g.ws() + strings.Join(parts, g.ws()+","+g.ws()) + g.ws() + "]"
}

func (g *gen) wrongKindScalar() string {
	return rapid.SampledFrom([]string{`"1"`, `true`, `null`, `[1]`, `{}`, `false`, `"x"`}).Draw(g.t, "wks")
}

func (g *gen) dims() int {
	return rapid.SampledFrom([]int{2, 2, 2, 2, 3, 3, 4}).Draw(g.t, "dims")
}

// posDims: the dimensionality of a later position given the first one's (mixed dimensionality sometimes).
func (g *gen) posDims(first int) int {
	if rapid.IntRange(0, 59).Draw(g.t, "mixdims") == 0 {
		return rapid.IntRange(2, 4).Draw(g.t, "otherdims")
	}
	return first
}

func (g *gen) line() string {
	t := g.t
	n := rapid.IntRange(2, 6).Draw(t, "linelen")
	if rapid.IntRange(0, 11).Draw(t, "longline") == 0 {
		n = rapid.IntRange(17, 70).Draw(t, "longlinelen") // long enough for R-tree splits and the default index threshold
	}
	if g.o.LongBias && rapid.IntRange(0, 2).Draw(t, "longbias") == 0 {
		n = rapid.IntRange(34, 63).Draw(t, "longbiaslen")
	}
	if g.mutate("line") {
		switch rapid.IntRange(0, 3).Draw(t, "linemut") {
		case 0:
			n = 1
		case 1:
			n = 0
		case 3: // the whole array looks like one position: every "position" is the same scalar
			v := rapid.SampledFrom([]string{"null", "null", "5", "1.5", "true", `"x"`}).Draw(t, "scalarpos")
			return "[" + strings.Repeat(v+","+g.ws(), rapid.IntRange(1, 4).Draw(t, "scalarposn")) + v + "]"
		default:
			return g.wrongKind()
		}
	}
	d := g.dims()
	var parts []string
	for i := 0; i < n; i++ {
		dd := d
		if i > 0 {
			dd = g.posDims(d)
		}
		parts = append(parts, g.position(dd, false))
	}
	return "[" + g.ws() + strings.Join(parts, ","+g.ws()) + "]"
}

func (g *gen) ring(d int) string {
	t := g.t
	n := rapid.IntRange(3, 6).Draw(t, "ringlen") // distinct positions before closing
	if rapid.IntRange(0, 19).Draw(t, "longring") == 0 {
		n = rapid.IntRange(17, 70).Draw(t, "longringlen")
	}
	var parts []string
	for i := 0; i < n; i++ {
		dd := d
		if i > 0 {
			dd = g.posDims(d)
		}
		parts = append(parts, g.position(dd, false))
	}
	closing := parts[0]
	if g.mutate("ring") {
		switch rapid.IntRange(0, 4).Draw(t, "ringmut") {
		case 4: // almost closed: the last position misses the first by a hair
			closing = nearMiss(parts[0], rapid.SampledFrom([]string{"0000000001", "000000000000001", "00001"}).Draw(t, "hair"))
		case 0: // not closed
			closing = g.position(d, false)
		case 1: // too short: two distinct positions + closing
			parts = parts[:2]
		case 2:
			return g.wrongKind()
		default: // no closing position at all
			return "[" + strings.Join(parts, ",") + "]"
		}
	}
	parts = append(parts, closing)
	return "[" + g.ws() + strings.Join(parts, ","+g.ws()) + "]"
}

func (g *gen) polygon() string {
	t := g.t
	n := rapid.SampledFrom([]int{1, 1, 1, 2, 3}).Draw(t, "nrings")
	if g.mutate("poly") {
		switch rapid.IntRange(0, 1).Draw(t, "polymut") {
		case 0:
			n = 0
		default:
			return g.wrongKind()
		}
	}
	d := g.dims()
	var parts []string
	for i := 0; i < n; i++ {
		if i > 0 && rapid.IntRange(0, 7).Draw(t, "pointhole") == 0 {
			// a well-formed interior ring whose positions all coincide: it cuts nothing out, but it is a ring of the document
			p := g.position(d, false)
			parts = append(parts, "["+strings.Repeat(p+","+g.ws(), rapid.IntRange(3, 5).Draw(t, "pointholen"))+p+"]")
			continue
		}
		parts = append(parts, g.ring(d))
	}
	return "[" + g.ws() + strings.Join(parts, ","+g.ws()) + "]"
}

// rectPolygon renders an axis-aligned rectangle in the winding AllowRects recognises (sometimes not).
func (g *gen) rectPolygon() string {
	t := g.t
	x0, y0 := rapid.IntRange(-5, 5).Draw(t, "rx0"), rapid.IntRange(-5, 5).Draw(t, "ry0")
	// one rectangle in six sits at the edge of the lon/lat range: some of them reach outside it
	// (RequireValid together with AllowRects)
	off := rapid.SampledFrom([][2]int{{0, 0}, {0, 0}, {0, 0}, {0, 0}, {0, 0}, {0, 0}, {0, 0}, {0, 0}, {177, 0}, {0, 86}, {-180, 0}, {0, -89}}).Draw(t, "roff")
	x0, y0 = x0+off[0], y0+off[1]
	x1, y1 := x0+rapid.IntRange(0, 6).Draw(t, "rw"), y0+rapid.IntRange(0, 6).Draw(t, "rh")
	pts := [][2]int{{x0, y0}, {x1, y0}, {x1, y1}, {x0, y1}, {x0, y0}}
	if rapid.IntRange(0, 3).Draw(t, "rrev") == 0 {
		pts = [][2]int{{x0, y0}, {x0, y1}, {x1, y1}, {x1, y0}, {x0, y0}}
	}
	if rapid.IntRange(0, 1).Draw(t, "rnear") == 0 {
		// almost a rectangle: one of the inner vertices moved along one axis
		i := rapid.IntRange(1, 3).Draw(t, "rvi")
		pts[i][rapid.IntRange(0, 1).Draw(t, "raxis")] += rapid.SampledFrom([]int{-3, -1, 1, 2, 5}).Draw(t, "rdelta")
	}
	var parts []string
	zdims := rapid.SampledFrom([]int{0, 0, 0, 1, 2}).Draw(t, "rz") // sometimes a rectangle with z / m ordinates
	for i, p := range pts {
		pos := fmt.Sprintf("[%d,%d", p[0], p[1])
		for k := 0; k < zdims; k++ {
			pos += fmt.Sprintf(",%d", (i%4)*10+k+1)
		}
		parts = append(parts, pos+"]")
	}
	if x1-x0 >= 3 && y1-y0 >= 3 && rapid.IntRange(0, 3).Draw(t, "rhole") == 0 {
		// a perfect rectangle with a hole in it is not a Rect
		var hole []string
		for i, p := range [][2]int{{x0 + 1, y0 + 1}, {x0 + 1, y0 + 2}, {x0 + 2, y0 + 2}, {x0 + 2, y0 + 1}, {x0 + 1, y0 + 1}} {
			pos := fmt.Sprintf("[%d,%d", p[0], p[1])
			for k := 0; k < zdims; k++ {
				pos += fmt.Sprintf(",%d", (i%4)*10+k+1)
			}
			hole = append(hole, pos+"]")
		}
		return "[[" + strings.Join(parts, ",") + "],[" + strings.Join(hole, ",") + "]]"
	}
	return "[[" + strings.Join(parts, ",") + "]]"
}

var keyPool = []string{`"id"`, `"bbox"`, `"properties"`, `"foo"`, `"a b"`, `"é"`, `"crs"`, `"Type"`, `"x\"y"`, `""`, `"name"`, `"foo"`, `"title"`,
	`"a\u0001b"`, `"\u000bv"`, `"del\u007f"`, "\"raw\x7fdel\"", `"\ud83d\ude00"`, `"nl\nkey"`, `"\u00e9\u0000"`}

func (g *gen) jsonValue(depth int) string {
	t := g.t
	m := rapid.IntRange(0, 9).Draw(t, "jv")
	if depth <= 0 && m >= 7 {
		m = 0
	}
	switch m {
	case 0:
		return g.num()
	case 1:
		return rapid.SampledFrom([]string{`"a"`, `""`, `"é\n"`, `"x\"y\\z"`, `"Circle"`, `"café"`, `"</script>"`, `"😀"`, `"tab\there"`}).Draw(t, "str")
	case 2:
		return rapid.SampledFrom([]string{"true", "false", "null"}).Draw(t, "lit")
	case 3:
		return strconv.Itoa(rapid.IntRange(-1000, 1000).Draw(t, "vint"))
	case 4:
		return `"` + rapid.StringMatching(`[a-zA-Z0-9 _-]{0,8}`).Draw(t, "word") + `"`
	case 5, 6:
		return g.num()
	case 7, 8:
		n := rapid.IntRange(0, 3).Draw(t, "arrn")
		var parts []string
		for i := 0; i < n; i++ {
			parts = append(parts, g.jsonValue(depth-1))
		}
		return "[" + g.ws() + strings.Join(parts, ","+g.ws()) + g.ws() + "]"
	default:
		n := rapid.IntRange(0, 3).Draw(t, "objn")
		var parts []string
		for i := 0; i < n; i++ {
			parts = append(parts, rapid.SampledFrom(keyPool).Draw(t, "okey")+g.ws()+":"+g.ws()+g.jsonValue(depth-1))
		}
		return "{" + g.ws() + strings.Join(parts, ","+g.ws()) + g.ws() + "}"
	}
}

func (g *gen) foreignMembers(isFeature bool) []string {
	t := g.t
	n := rapid.SampledFrom([]int{0, 0, 0, 1, 1, 2, 3}).Draw(t, "nforeign")
	var out []string
	for i := 0; i < n; i++ {
		k := rapid.SampledFrom(keyPool).Draw(t, "fkey")
		if g.mutate("reserved") {
			k = rapid.SampledFrom([]string{`"geometry"`, `"coordinates"`, `"features"`, `"geometries"`}).Draw(t, "reskey")
		}
		if g.o.Noise && len(k) > 3 && rapid.IntRange(0, 9).Draw(t, "fkeyesc") == 0 && k[1] < 0x80 && k[1] != '\\' && k[1] != '"' {
			k = `"` + fmt.Sprintf("\\u%04x", k[1]) + k[2:] // first character written as a \u escape
		}
		v := g.jsonValue(2)
		if k == `"properties"` && rapid.Bool().Draw(t, "propobj") {
			v = `{"name":` + g.jsonValue(1) + `}`
		}
		out = append(out, k+g.ws()+":"+g.ws()+v)
	}
	return out
}

var geomTypes = []string{"Point", "LineString", "Polygon", "MultiPoint", "MultiLineString", "MultiPolygon", "GeometryCollection"}

func (g *gen) object(depth int, feature bool) string {
	t := g.t
	var typ string
	switch {
	case feature:
		typ = "Feature"
	case depth > 0 && rapid.IntRange(0, 3).Draw(t, "coll") == 0:
		typ = rapid.SampledFrom([]string{"GeometryCollection", "FeatureCollection", "Feature"}).Draw(t, "colltype")
	default:
		typ = rapid.SampledFrom(geomTypes[:6]).Draw(t, "gtype")
		if g.o.RectBias && rapid.Bool().Draw(t, "rectbias") {
			typ = rapid.SampledFrom([]string{"Polygon", "Polygon", "Point"}).Draw(t, "rbtype")
		}
	}
	var reqKey, reqVal string
	var extra []string
	switch typ {
	case "Point":
		reqKey, reqVal = "coordinates", g.position(g.dims(), true)
	case "LineString":
		reqKey, reqVal = "coordinates", g.line()
	case "Polygon":
		reqKey = "coordinates"
		if rapid.IntRange(0, 5).Draw(t, "rectpoly") == 0 || (g.o.RectBias && rapid.IntRange(0, 2).Draw(t, "rectpoly2") > 0) {
			reqVal = g.rectPolygon()
		} else {
			reqVal = g.polygon()
		}
	case "MultiPoint", "MultiLineString", "MultiPolygon":
		reqKey = "coordinates"
		n := rapid.SampledFrom([]int{0, 1, 1, 2, 3}).Draw(t, "nchild")
		var parts []string
		for i := 0; i < n; i++ {
			switch typ {
			case "MultiPoint":
				parts = append(parts, g.position(g.dims(), true))
			case "MultiLineString":
				parts = append(parts, g.line())
			default:
				parts = append(parts, g.polygon())
			}
		}
		reqVal = "[" + g.ws() + strings.Join(parts, ","+g.ws()) + "]"
		if typ == "MultiPoint" && g.mutate("mpscalar") {
			// the whole array looks like one position: every "position" is the same scalar
			v := rapid.SampledFrom([]string{"null", "null", "5", "1.5", "true", `"x"`}).Draw(t, "mpscalarv")
			reqVal = "[" + strings.Repeat(v+","+g.ws(), rapid.IntRange(1, 4).Draw(t, "mpscalarn")) + v + "]"
		}
	case "GeometryCollection", "FeatureCollection":
		reqKey = "geometries"
		if typ == "FeatureCollection" {
			reqKey = "features"
		}
		n := rapid.SampledFrom([]int{0, 1, 2, 2, 3}).Draw(t, "ncoll")
		var parts []string
		for i := 0; i < n; i++ {
			if g.mutate("collelem") {
				parts = append(parts, g.wrongKind())
				continue
			}
			parts = append(parts, g.object(depth-1, typ == "FeatureCollection" && rapid.IntRange(0, 4).Draw(t, "featchild") > 0))
		}
		reqVal = "[" + g.ws() + strings.Join(parts, ","+g.ws()) + "]"
	case "Feature":
		reqKey = "geometry"
		if !g.o.NoCircle && rapid.IntRange(0, 5).Draw(t, "circle") == 0 {
			reqVal = `{"type":"Point","coordinates":` + g.position(2, false) + `}`
			units := rapid.SampledFrom([]string{``, `,"radius_units":"m"`, `,"radius_units":"km"`, `,"radius_units":"mi"`, `,"radius_units":5`}).Draw(t, "units")
			if g.mut == 0 && (strings.Contains(units, "mi") || strings.Contains(units, ":5")) {
				units = `,"radius_units":"km"`
			}
			rad := rapid.SampledFrom([]string{"100", "1", "0", "2500.5", "1e6", "0.001"}).Draw(t, "radius")
			extra = append(extra, `"properties"`+g.ws()+`:{"type":"Circle","radius":`+rad+units+`}`)
		} else if g.mutate("nullgeom") {
			reqVal = rapid.SampledFrom([]string{"null", "[]", `"Point"`, "5",
				// a JSON string whose content is a whole valid geometry (double-encoded): still a string, not an object
				`"{\"type\":\"Point\",\"coordinates\":[1,2]}"`, `"{\"type\":\"LineString\",\"coordinates\":[[0,0],[1,1]]}"`}).Draw(t, "badgeom")
		} else {
			reqVal = g.object(depth-1, false)
			if !g.o.NoCircle && rapid.IntRange(0, 9).Draw(t, "circleprops") == 0 {
				// the Circle members on a Feature whose geometry is (usually) not a Point: it stays a Feature
				extra = append(extra, `"properties"`+g.ws()+`:{"type":"Circle","radius":`+rapid.SampledFrom([]string{"100", "2500.5", "1e6"}).Draw(t, "radius2")+
					rapid.SampledFrom([]string{``, `,"radius_units":"km"`, `,"radius_units":"ft"`}).Draw(t, "units2")+`}`)
			}
		}
	}
	if g.mutate("reqkind") {
		reqVal = g.wrongKind()
	}
	typeVal := `"` + typ + `"`
	if g.mutate("type") {
		typeVal = rapid.SampledFrom([]string{`"point"`, `"Circle"`, `5`, `null`, `"Polygon "`, `["Point"]`, `""`, `"Unknown"`}).Draw(t, "badtype")
	}
	typeKey := `"type"`
	if g.o.Noise && rapid.IntRange(0, 9).Draw(t, "esckey") == 0 {
		typeKey = `"\u0074ype"`
	}
	members := []string{typeKey + g.ws() + ":" + g.ws() + typeVal}
	if !g.mutate("dropreq") {
		rk := reqKey
		if g.o.Noise && rapid.IntRange(0, 9).Draw(t, "escreq") == 0 {
			// the same member name written with an escape ("coordinat\u0065s"): still that member
			i := rapid.IntRange(0, len(rk)-1).Draw(t, "escreqat")
			rk = rk[:i] + fmt.Sprintf("\\u%04x", rk[i]) + rk[i+1:]
		}
		members = append(members, `"`+rk+`"`+g.ws()+":"+g.ws()+reqVal)
	}
	if g.mutate("droptype") {
		members = members[1:]
	}
	if len(extra) == 0 {
		extra = g.foreignMembers(typ == "Feature")
	} else {
		extra = append(extra, g.foreignMembers(true)...)
		// a second properties member would be a duplicate: drop those
		var keep []string
		for i, e := range extra {
			if i > 0 && strings.HasPrefix(e, `"properties"`) {
				continue
			}
			keep = append(keep, e)
		}
		extra = keep
	}
	members = append(members, extra...)
	if g.o.Noise {
		// duplicate members: a decoy before the real one (last wins) or, as a mutation, after it
		if rapid.IntRange(0, 9).Draw(t, "dup") == 0 {
			decoy := rapid.SampledFrom([]string{`"type":"Point"`, `"type":5`, `"coordinates":[0,0]`, `"coordinates":"x"`, `"geometry":null`, `"foo":1`, `"id":"dup"`}).Draw(t, "decoy")
			members = append([]string{decoy}, members...)
		}
		// shuffle
		members = rapid.Permutation(members).Draw(t, "order")
	}
	if g.mutate("dupafter") {
		members = append(members, rapid.SampledFrom([]string{`"type":"LineString"`, `"coordinates":[1,2]`, `"type":null`, `"coordinates":null`}).Draw(t, "dupafter"))
	}
	return "{" + g.ws() + strings.Join(members, g.ws()+","+g.ws()) + g.ws() + "}"
}

// Doc draws one document text.
func Doc(t *rapid.T, o Opts) string {
	g := &gen{t: t, o: o, mut: o.Mutations}
	g.invalidDoc = (o.Lattice || o.ValidLonLat) && rapid.IntRange(0, 7).Draw(t, "invaliddoc") == 0
	depth := o.MaxDepth
	s := g.object(depth, rapid.IntRange(0, 5).Draw(t, "topfeature") == 0)
	if g.o.Noise {
		s = g.ws() + s + g.ws()
	}
	if g.mutate("trailing") {
		s += rapid.SampledFrom([]string{"x", "{}", ",", "]", "\x00", "null", "\ufeff", "}", "\v", "\f", "\u00a0", "\u0085", "\u2003", "\u3000"}).Draw(t, "garbage")
	}
	if g.mutate("leading") {
		s = rapid.SampledFrom([]string{"\ufeff", "x", "[", "\x00", "\x01", "//c\n", "\v", "\f", "\u00a0", "\u0085", "\u2003", "\u3000"}).Draw(t, "leadgarbage") + s
	}
	if g.mutate("truncate") && len(s) > 2 {
		s = s[:rapid.IntRange(1, len(s)-1).Draw(t, "cut")]
	}
	return s
}

// nearMiss returns the position text with its first ordinate changed by a tiny amount (appending digits to
// its decimal expansion); positions whose first ordinate is not a plain decimal are returned unchanged.
func nearMiss(pos, digits string) string {
	i := strings.IndexByte(pos, '[')
	j := strings.IndexByte(pos, ',')
	if i < 0 || j < i {
		return pos
	}
	num := strings.TrimSpace(pos[i+1 : j])
	if num == "" || strings.ContainsAny(num, "eE") {
		return pos
	}
	if _, err := strconv.ParseFloat(num, 64); err != nil {
		return pos
	}
	if strings.Contains(num, ".") {
		num += digits
	} else {
		num += "." + digits
	}
	return pos[:i+1] + num + pos[j:]
}
