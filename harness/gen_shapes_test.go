package harness

// Valid-shape generators for C02, C03, C09, C12 (DESIGN.md §3.2): construction
// first, rejection second, every choice drawn through rapid.

import (
	"sort"

	"pgregory.net/rapid"
	"verifharness/adapt"
	"verifharness/exact"
)

func genLatP(t *rapid.T, R int64, label string) exact.P {
	return exact.P{X: rapid.Int64Range(0, R).Draw(t, label+"x"), Y: rapid.Int64Range(0, R).Draw(t, label+"y")}
}

func distinctPts(t *rapid.T, R int64, n int, label string) []exact.P {
	seen := map[exact.P]bool{}
	var out []exact.P
	for tries := 0; len(out) < n && tries < 4*n+8; tries++ {
		p := genLatP(t, R, label)
		if !seen[p] {
			seen[p] = true
			out = append(out, p)
		}
	}
	return out
}

// angular sort of pts around the half-lattice centre (cx+1/2, cy+1/2), exact.
func angularSort(pts []exact.P, cx, cy int64) {
	type v struct{ x, y int64 }
	rel := func(p exact.P) v { return v{2*p.X - (2*cx + 1), 2*p.Y - (2*cy + 1)} }
	half := func(a v) int {
		if a.y > 0 || (a.y == 0 && a.x > 0) {
			return 0
		}
		return 1
	}
	sort.SliceStable(pts, func(i, j int) bool {
		a, b := rel(pts[i]), rel(pts[j])
		if ha, hb := half(a), half(b); ha != hb {
			return ha < hb
		}
		cr := a.x*b.y - a.y*b.x
		if cr != 0 {
			return cr > 0
		}
		return a.x*a.x+a.y*a.y < b.x*b.x+b.y*b.y
	})
}

func untangle(pts []exact.P) []exact.P {
	n := len(pts)
	for iter := 0; iter < 200; iter++ {
		changed := false
		for i := 0; i < n && !changed; i++ {
			for j := i + 2; j < n; j++ {
				if i == 0 && j == n-1 {
					continue
				}
				a := exact.Seg{A: pts[i], B: pts[(i+1)%n]}
				b := exact.Seg{A: pts[j], B: pts[(j+1)%n]}
				if exact.SegsMeet(a, b) {
					// reverse pts[i+1..j]
					for l, r := i+1, j; l < r; l, r = l+1, r-1 {
						pts[l], pts[r] = pts[r], pts[l]
					}
					changed = true
					break
				}
			}
		}
		if !changed {
			break
		}
	}
	return pts
}

func staircase(t *rapid.T, R int64) []exact.P {
	k := rapid.IntRange(2, 5).Draw(t, "cols")
	xs := []int64{0}
	for i := 0; i < k; i++ {
		xs = append(xs, xs[len(xs)-1]+rapid.Int64Range(1, max(1, R/int64(k))).Draw(t, "w"))
	}
	twoSided := rapid.Bool().Draw(t, "two")
	bot := make([]int64, k)
	top := make([]int64, k)
	for i := 0; i < k; i++ {
		if twoSided {
			bot[i] = rapid.Int64Range(0, R/2).Draw(t, "b")
		}
		lo := bot[i] + 1
		if i > 0 && bot[i-1]+1 > lo {
			lo = bot[i-1] + 1
		}
		if lo > R {
			lo = R
		}
		top[i] = rapid.Int64Range(lo, max(lo, R)).Draw(t, "t")
		if i > 0 && twoSided && bot[i] >= top[i-1] {
			bot[i] = top[i-1] - 1
			if bot[i] < 0 {
				bot[i] = 0
			}
		}
	}
	var ring []exact.P
	add := func(p exact.P) {
		if len(ring) == 0 || ring[len(ring)-1] != p {
			ring = append(ring, p)
		}
	}
	for i := 0; i < k; i++ {
		add(exact.P{X: xs[i], Y: bot[i]})
		add(exact.P{X: xs[i+1], Y: bot[i]})
	}
	for i := k - 1; i >= 0; i-- {
		add(exact.P{X: xs[i+1], Y: top[i]})
		add(exact.P{X: xs[i], Y: top[i]})
	}
	for len(ring) > 1 && ring[0] == ring[len(ring)-1] {
		ring = ring[:len(ring)-1]
	}
	return ring
}

// genSimpleRing returns an unclosed simple ring within [0,R]^2 (falls back to a triangle).
func genSimpleRing(t *rapid.T, R int64, maxN int) []exact.P {
	mode := rapid.IntRange(0, 5).Draw(t, "ringmode")
	if mode == 5 {
		// an axis-aligned rectangle, sometimes with one corner moved along one axis (right trapezoids: the
		// shapes a too-generous rectangle recogniser would swallow)
		x0, y0 := rapid.Int64Range(0, R-1).Draw(t, "nx0"), rapid.Int64Range(0, R-1).Draw(t, "ny0")
		x1, y1 := rapid.Int64Range(x0+1, R).Draw(t, "nx1"), rapid.Int64Range(y0+1, R).Draw(t, "ny1")
		pts := []exact.P{{X: x0, Y: y0}, {X: x1, Y: y0}, {X: x1, Y: y1}, {X: x0, Y: y1}}
		if rapid.IntRange(0, 2).Draw(t, "nmove") > 0 {
			i := rapid.IntRange(0, 3).Draw(t, "ni")
			d := rapid.Int64Range(-2, 2).Draw(t, "nd")
			q := pts[i]
			if rapid.Bool().Draw(t, "naxis") {
				q.X += d
			} else {
				q.Y += d
			}
			if q.X >= 0 && q.X <= R && q.Y >= 0 && q.Y <= R {
				cand := append([]exact.P{}, pts...)
				cand[i] = q
				if exact.SimpleRing(cand) {
					pts = cand
				}
			}
		}
		return pts
	}
	for attempt := 0; attempt < 6; attempt++ {
		var pts []exact.P
		switch mode {
		case 0: // plain rejection, small n
			for tries := 0; tries < 25; tries++ {
				n := rapid.IntRange(3, 6).Draw(t, "n")
				cand := distinctPts(t, R, n, "p")
				if exact.SimpleRing(cand) {
					pts = cand
					break
				}
			}
		case 1: // star-shaped around a half-lattice centre
			n := rapid.IntRange(3, max(3, maxN)).Draw(t, "n")
			pts = distinctPts(t, R, n, "p")
			if len(pts) >= 3 {
				angularSort(pts, rapid.Int64Range(0, max(0, R-1)).Draw(t, "cx"), rapid.Int64Range(0, max(0, R-1)).Draw(t, "cy"))
			}
		case 2:
			pts = staircase(t, R)
		case 3: // random order + 2-opt untangling
			n := rapid.IntRange(4, max(4, min(maxN, 10))).Draw(t, "n")
			pts = untangle(distinctPts(t, R, n, "p"))
		default: // convex-ish: angular sort around the centroid-like centre
			n := rapid.IntRange(3, max(3, min(maxN, 8))).Draw(t, "n")
			pts = distinctPts(t, R, n, "p")
			if len(pts) >= 3 {
				var sx, sy int64
				for _, p := range pts {
					sx += p.X
					sy += p.Y
				}
				angularSort(pts, sx/int64(len(pts)), sy/int64(len(pts)))
			}
		}
		if exact.SimpleRing(pts) {
			return pts
		}
		mode = (mode + 1) % 5
	}
	return []exact.P{{X: 0, Y: 0}, {X: R, Y: 0}, {X: 0, Y: R}}
}

// encodeRing applies a random rotation of the start vertex, direction and closing-vertex encoding.
func encodeRing(t *rapid.T, ring []exact.P, mustClose bool) []exact.P {
	n := len(ring)
	r := rapid.IntRange(0, n-1).Draw(t, "rot")
	out := make([]exact.P, 0, n+1)
	out = append(out, ring[r:]...)
	out = append(out, ring[:r]...)
	if rapid.Bool().Draw(t, "rev") {
		for l, rr := 0, n-1; l < rr; l, rr = l+1, rr-1 {
			out[l], out[rr] = out[rr], out[l]
		}
	}
	if mustClose || rapid.IntRange(0, 2).Draw(t, "closeenc") > 0 {
		out = append(out, out[0])
	}
	return out
}

func genHole(t *rapid.T, ext []exact.P, others [][]exact.P) []exact.P {
	s := exact.Shape{K: exact.KLine, Line: ext}
	mn, mx, _ := s.Box()
	for tries := 0; tries < 20; tries++ {
		n := rapid.IntRange(3, 4).Draw(t, "hn")
		var h []exact.P
		if rapid.IntRange(0, 3).Draw(t, "hrect") == 0 { // axis-aligned rectangular hole
			a := exact.P{X: rapid.Int64Range(mn.X, mx.X).Draw(t, "hx"), Y: rapid.Int64Range(mn.Y, mx.Y).Draw(t, "hy")}
			b := exact.P{X: rapid.Int64Range(mn.X, mx.X).Draw(t, "hx"), Y: rapid.Int64Range(mn.Y, mx.Y).Draw(t, "hy")}
			h = []exact.P{{X: min(a.X, b.X), Y: min(a.Y, b.Y)}, {X: max(a.X, b.X), Y: min(a.Y, b.Y)}, {X: max(a.X, b.X), Y: max(a.Y, b.Y)}, {X: min(a.X, b.X), Y: max(a.Y, b.Y)}}
		} else {
			for i := 0; i < n; i++ {
				h = append(h, exact.P{X: rapid.Int64Range(mn.X, mx.X).Draw(t, "hx"), Y: rapid.Int64Range(mn.Y, mx.Y).Draw(t, "hy")})
			}
		}
		if exact.SimpleRing(h) && exact.HoleValid(ext, h, others) {
			return h
		}
	}
	return nil
}

// genPolyShape draws a valid polygon (simple exterior, 0..2 valid holes) within [0,R]^2.
func genPolyShape(t *rapid.T, R int64, maxN int, mustClose bool) exact.Shape {
	ext := genSimpleRing(t, R, maxN)
	s := exact.Shape{K: exact.KPoly}
	var holes [][]exact.P
	nh := rapid.SampledFrom([]int{0, 0, 1, 1, 2}).Draw(t, "nholes")
	for i := 0; i < nh; i++ {
		if h := genHole(t, ext, holes); h != nil {
			holes = append(holes, h)
		}
	}
	s.Ext = encodeRing(t, ext, mustClose)
	for _, h := range holes {
		s.Holes = append(s.Holes, encodeRing(t, h, mustClose))
	}
	return s
}

func genLineShape(t *rapid.T, R int64) exact.Shape {
	n := rapid.IntRange(2, 6).Draw(t, "ln")
	var l []exact.P
	for i := 0; i < n; i++ {
		m := rapid.IntRange(0, 7).Draw(t, "lm")
		switch {
		case m == 0 && len(l) > 0:
			l = append(l, l[rapid.IntRange(0, len(l)-1).Draw(t, "ldup")])
		case m == 1 && len(l) > 1:
			a, b := l[len(l)-2], l[len(l)-1]
			k := rapid.Int64Range(-1, 2).Draw(t, "lk")
			p := exact.P{X: b.X + k*(b.X-a.X), Y: b.Y + k*(b.Y-a.Y)}
			if p.X < 0 || p.X > R || p.Y < 0 || p.Y > R {
				p = genLatP(t, R, "l")
			}
			l = append(l, p)
		default:
			l = append(l, genLatP(t, R, "l"))
		}
	}
	return exact.Shape{K: exact.KLine, Line: l}
}

func genRectShape(t *rapid.T, R int64) exact.Shape {
	a, b := genLatP(t, R, "ra"), genLatP(t, R, "rb")
	if rapid.IntRange(0, 5).Draw(t, "rdeg") == 0 {
		b.X = a.X // degenerate
	}
	return exact.Shape{K: exact.KRect, Min: exact.P{X: min(a.X, b.X), Y: min(a.Y, b.Y)}, Max: exact.P{X: max(a.X, b.X), Y: max(a.Y, b.Y)}}
}

func genShapeOfKind(t *rapid.T, k exact.Kind, R int64, maxN int, mustClose bool) exact.Shape {
	switch k {
	case exact.KPoint:
		return exact.Shape{K: exact.KPoint, Pt: genLatP(t, R, "pt")}
	case exact.KRect:
		return genRectShape(t, R)
	case exact.KLine:
		return genLineShape(t, R)
	}
	return genPolyShape(t, R, maxN, mustClose)
}

// pointPool collects lattice points in interesting relation to A.
type pointPool struct {
	verts, onEdge, inside, inHole, outside, holeB []exact.P
	theme                                         int // 0 mixed, 1 hole interiors only, 2 outside only, 3 inside only, 4 boundary only, 5 hole interior or hole boundary
}

func buildPool(t *rapid.T, A *exact.Shape, R int64) *pointPool {
	pp := &pointPool{}
	for _, r := range shapeRings(A) {
		pp.verts = append(pp.verts, exact.Unclose(r)...)
	}
	for _, e := range A.Boundary() {
		g := gcd(abs64(e.B.X-e.A.X), abs64(e.B.Y-e.A.Y))
		for k := int64(1); k < g && k < 8; k++ {
			pp.onEdge = append(pp.onEdge, exact.P{X: e.A.X + k*((e.B.X-e.A.X)/g), Y: e.A.Y + k*((e.B.Y-e.A.Y)/g)})
		}
	}
	for _, h := range A.Holes {
		pp.holeB = append(pp.holeB, exact.Unclose(h)...)
		for _, e := range exact.RingEdges(h) {
			g := gcd(abs64(e.B.X-e.A.X), abs64(e.B.Y-e.A.Y))
			for k := int64(1); k < g && k < 6; k++ {
				pp.holeB = append(pp.holeB, exact.P{X: e.A.X + k*((e.B.X-e.A.X)/g), Y: e.A.Y + k*((e.B.Y-e.A.Y)/g)})
			}
		}
		hs := exact.Shape{K: exact.KLine, Line: h}
		mn, mx, _ := hs.Box()
		he := exact.RingEdges(h)
		for y := mn.Y; y <= mx.Y && len(pp.inHole) < 40; y++ {
			for x := mn.X; x <= mx.X && x-mn.X < 40; x++ {
				if in, on := exact.PointInRing(he, exact.Lat(exact.P{X: x, Y: y})); in && !on {
					pp.inHole = append(pp.inHole, exact.P{X: x, Y: y})
				}
			}
		}
	}
	for i := 0; i < 14; i++ {
		p := genLatP(t, R, "pool")
		q := exact.Lat(p)
		if A.Member(q) {
			onB := false
			for _, e := range A.Boundary() {
				if exact.OnSeg(e, q) {
					onB = true
					break
				}
			}
			if !onB {
				pp.inside = append(pp.inside, p)
			}
			continue
		}
		inH := false
		for _, h := range A.Holes {
			if in, _ := exact.PointInRing(exact.RingEdges(h), q); in {
				inH = true
			}
		}
		if inH {
			pp.inHole = append(pp.inHole, p)
		} else {
			pp.outside = append(pp.outside, p)
		}
	}
	return pp
}

func (pp *pointPool) draw(t *rapid.T, R int64) exact.P {
	classes := [][]exact.P{pp.verts, pp.onEdge, pp.inside, pp.inside, pp.inHole, pp.outside}
	switch pp.theme {
	case 1:
		classes = [][]exact.P{pp.inHole}
	case 2:
		classes = [][]exact.P{pp.outside}
	case 3:
		classes = [][]exact.P{pp.inside, pp.inside, pp.verts, pp.onEdge}
	case 4:
		classes = [][]exact.P{pp.verts, pp.onEdge}
	case 5:
		classes = [][]exact.P{pp.inHole, pp.holeB, pp.holeB}
	}
	for tries := 0; tries < 4; tries++ {
		c := classes[rapid.IntRange(0, len(classes)-1).Draw(t, "pclass")]
		if len(c) > 0 {
			return c[rapid.IntRange(0, len(c)-1).Draw(t, "pidx")]
		}
	}
	return genLatP(t, R, "pfree")
}

// genRelatedShape draws B in deliberate relation to A (contact configurations, §3.2 mode ii/iii).
func genRelatedShape(t *rapid.T, A *exact.Shape, k exact.Kind, R int64, mustClose bool) exact.Shape {
	pp := buildPool(t, A, R)
	pp.theme = rapid.SampledFrom([]int{0, 0, 0, 1, 1, 2, 2, 3, 3, 4, 5}).Draw(t, "theme")
	switch k {
	case exact.KPoint:
		return exact.Shape{K: exact.KPoint, Pt: pp.draw(t, R)}
	case exact.KRect:
		a, b := pp.draw(t, R), pp.draw(t, R)
		if A.K == exact.KPoly && len(A.Holes) > 0 && rapid.IntRange(0, 3).Draw(t, "holebox") == 0 {
			h := exact.Shape{K: exact.KLine, Line: A.Holes[0]}
			a, b, _ = h.Box()
		}
		return exact.Shape{K: exact.KRect, Min: exact.P{X: min(a.X, b.X), Y: min(a.Y, b.Y)}, Max: exact.P{X: max(a.X, b.X), Y: max(a.Y, b.Y)}}
	case exact.KLine:
		n := rapid.IntRange(2, 5).Draw(t, "rln")
		var l []exact.P
		for i := 0; i < n; i++ {
			l = append(l, pp.draw(t, R))
		}
		return exact.Shape{K: exact.KLine, Line: l}
	}
	// polygon
	mode := rapid.IntRange(0, 6).Draw(t, "rpmode")
	if A.K == exact.KPoly {
		switch mode {
		case 0: // the same exterior (equal shapes), re-encoded
			return exact.Shape{K: exact.KPoly, Ext: encodeRing(t, exact.Unclose(A.Ext), mustClose)}
		case 1: // a hole ring itself: fills the hole
			if len(A.Holes) > 0 {
				h := A.Holes[rapid.IntRange(0, len(A.Holes)-1).Draw(t, "hsel")]
				return exact.Shape{K: exact.KPoly, Ext: encodeRing(t, exact.Unclose(h), mustClose)}
			}
		case 2: // a chain of consecutive exterior vertices closed through pool points
			ext := exact.Unclose(A.Ext)
			i := rapid.IntRange(0, len(ext)-1).Draw(t, "ci")
			l := rapid.IntRange(2, min(len(ext), 5)).Draw(t, "cl")
			var ring []exact.P
			for j := 0; j < l; j++ {
				ring = append(ring, ext[(i+j)%len(ext)])
			}
			for tries := 0; tries < 10; tries++ {
				cand := append(append([]exact.P{}, ring...), pp.draw(t, R))
				if exact.SimpleRing(cand) {
					return exact.Shape{K: exact.KPoly, Ext: encodeRing(t, cand, mustClose)}
				}
			}
		case 3: // surrounds A: its box as a polygon, possibly with A's hole as own hole
			mn, mx, _ := A.Box()
			ring := []exact.P{mn, {X: mx.X, Y: mn.Y}, mx, {X: mn.X, Y: mx.Y}}
			if exact.SimpleRing(ring) {
				return exact.Shape{K: exact.KPoly, Ext: encodeRing(t, ring, mustClose)}
			}
		}
	}
	for tries := 0; tries < 25; tries++ {
		n := rapid.IntRange(3, 5).Draw(t, "rpn")
		var cand []exact.P
		for i := 0; i < n; i++ {
			cand = append(cand, pp.draw(t, R))
		}
		if exact.SimpleRing(cand) {
			s := exact.Shape{K: exact.KPoly, Ext: encodeRing(t, cand, mustClose)}
			// sometimes give B a hole of its own (possibly containing a hole of A)
			if rapid.IntRange(0, 3).Draw(t, "bhole") == 0 {
				if h := genHole(t, cand, nil); h != nil {
					s.Holes = [][]exact.P{encodeRing(t, h, mustClose)}
				}
			}
			return s
		}
	}
	return genPolyShape(t, R, 6, mustClose)
}

// pairCase is one ordered pair of valid shapes with their encodings.
type pairCase struct {
	A  exact.Shape `json:"a"`
	B  exact.Shape `json:"b"`
	EA adapt.Enc   `json:"enc_a"`
	EB adapt.Enc   `json:"enc_b"`
}

func shapePoints(s *exact.Shape) int {
	n := 0
	for _, r := range shapeRings(s) {
		n += len(r)
	}
	return n
}

func mapShape(s exact.Shape, f func(exact.P) exact.P) exact.Shape {
	o := exact.Shape{K: s.K}
	mp := func(ps []exact.P) []exact.P {
		if ps == nil {
			return nil
		}
		q := make([]exact.P, len(ps))
		for i, p := range ps {
			q[i] = f(p)
		}
		return q
	}
	switch s.K {
	case exact.KPoint:
		o.Pt = f(s.Pt)
	case exact.KRect:
		a, b := f(s.Min), f(s.Max)
		o.Min = exact.P{X: min(a.X, b.X), Y: min(a.Y, b.Y)}
		o.Max = exact.P{X: max(a.X, b.X), Y: max(a.Y, b.Y)}
	case exact.KLine:
		o.Line = mp(s.Line)
	case exact.KPoly:
		o.Ext = mp(s.Ext)
		for _, h := range s.Holes {
			o.Holes = append(o.Holes, mp(h))
		}
	}
	return o
}

// genPair draws an ordered pair of valid shapes; relatedBias in 0..10 is the weight of related B.
func genPair(t *rapid.T, ka, kb exact.Kind, relatedBias int, mustClose, allowEmpty bool) pairCase {
	R := rapid.SampledFrom([]int64{4, 6, 6, 8, 12}).Draw(t, "R")
	maxN := 8
	if rapid.IntRange(0, 9).Draw(t, "bigring") == 0 {
		R, maxN = 40, rapid.SampledFrom([]int{40, 40, 80}).Draw(t, "bigmax") // rings above the 16-point shortcut and the index thresholds (64)
	}
	A := genShapeOfKind(t, ka, R, maxN, mustClose)
	var B exact.Shape
	if rapid.IntRange(0, 9).Draw(t, "related") < relatedBias {
		B = genRelatedShape(t, &A, kb, R, mustClose)
	} else if rapid.Bool().Draw(t, "subbox") {
		// B in a smaller box placed anywhere over A's box: disjoint and near-miss pairs
		r2 := max(2, R/2)
		B = genShapeOfKind(t, kb, r2, maxN, mustClose)
		ox, oy := rapid.Int64Range(0, R).Draw(t, "ox"), rapid.Int64Range(0, R).Draw(t, "oy")
		B = mapShape(B, func(p exact.P) exact.P { return exact.P{X: p.X + ox, Y: p.Y + oy} })
		R = R + r2
	} else {
		B = genShapeOfKind(t, kb, R, maxN, mustClose)
	}
	if rapid.IntRange(0, 7).Draw(t, "densify") == 0 {
		// same point sets with many more vertices: every edge gets intermediate collinear vertices, so that small
		// shapes reach the >= 16-point shortcut of ringContainsRing and the index thresholds
		const m = 4
		f := func(p exact.P) exact.P { return exact.P{X: m * p.X, Y: m * p.Y} }
		A, B = mapShape(A, f), mapShape(B, f)
		R *= m
		B = densifyShape(B, rapid.IntRange(1, 3).Draw(t, "densB"))
		if rapid.Bool().Draw(t, "densA") {
			A = densifyShape(A, rapid.IntRange(1, 3).Draw(t, "densAk"))
		}
	}
	if allowEmpty && rapid.IntRange(0, 39).Draw(t, "empty") == 0 {
		// empty operand: a line of fewer than two, a polygon of fewer than three positions
		tgt := &B
		if rapid.Bool().Draw(t, "emptyA") {
			tgt = &A
		}
		if tgt.K == exact.KLine || tgt.K == exact.KPoly {
			var pts []exact.P
			for i := rapid.IntRange(0, int(tgt.K)-1).Draw(t, "emptylen"); i > 0; i-- {
				pts = append(pts, genLatP(t, R, "e"))
			}
			if tgt.K == exact.KLine {
				*tgt = exact.Shape{K: exact.KLine, Line: pts}
			} else {
				*tgt = exact.Shape{K: exact.KPoly, Ext: pts}
			}
		}
	}
	// similarity: integer multiplier and translation, then a common power-of-two scale
	if rapid.IntRange(0, 3).Draw(t, "sim") == 0 {
		k := rapid.SampledFrom([]int64{2, 3, 1000, (1 << 19) / R}).Draw(t, "mult")
		tx := rapid.Int64Range(-(1<<20), (1<<20)-k*R).Draw(t, "tx")
		ty := rapid.Int64Range(-(1<<20), (1<<20)-k*R).Draw(t, "ty")
		f := func(p exact.P) exact.P { return exact.P{X: k*p.X + tx, Y: k*p.Y + ty} }
		A, B = mapShape(A, f), mapShape(B, f)
	}
	sc := genScale(t)
	ea := adapt.Enc{Scale: sc, IndexKind: rapid.IntRange(0, 2).Draw(t, "ika")}
	ea.MinPoints = rapid.SampledFrom([]int{0, 1, shapePoints(&A), shapePoints(&A) + 1, 64}).Draw(t, "mpa")
	eb := adapt.Enc{Scale: sc, IndexKind: rapid.IntRange(0, 2).Draw(t, "ikb")}
	eb.MinPoints = rapid.SampledFrom([]int{0, 1, shapePoints(&B), shapePoints(&B) + 1, 64}).Draw(t, "mpb")
	return pairCase{A: A, B: B, EA: ea, EB: eb}
}

// contactClass classifies a pair by how the boundaries touch (label for the histogram).
func contactClass(A, B *exact.Shape) string {
	ba, bb := A.Boundary(), B.Boundary()
	vv, ve, col, cross := false, false, false, false
	for _, e := range ba {
		for _, f := range bb {
			if !exact.SegsMeet(e, f) {
				continue
			}
			if e.A == f.A || e.A == f.B || e.B == f.A || e.B == f.B {
				vv = true
			}
			nonDeg := e.A != e.B && f.A != f.B
			if nonDeg && exact.Orient(e.A, e.B, f.A) == 0 && exact.Orient(e.A, e.B, f.B) == 0 {
				// collinear: overlap of positive length?
				cnt := 0
				for _, p := range []exact.P{f.A, f.B} {
					if exact.OnSeg(e, exact.Lat(p)) {
						cnt++
					}
				}
				for _, p := range []exact.P{e.A, e.B} {
					if exact.OnSeg(f, exact.Lat(p)) {
						cnt++
					}
				}
				if cnt >= 2 && !(cnt == 2 && (e.A == f.A || e.A == f.B || e.B == f.A || e.B == f.B) && !overlapLen(e, f)) {
					col = true
				}
				continue
			}
			if exact.OnSeg(e, exact.Lat(f.A)) || exact.OnSeg(e, exact.Lat(f.B)) || exact.OnSeg(f, exact.Lat(e.A)) || exact.OnSeg(f, exact.Lat(e.B)) {
				ve = true
			} else {
				cross = true
			}
		}
	}
	switch {
	case col:
		return "collinear-overlap"
	case vv:
		return "vertex-vertex"
	case ve:
		return "vertex-edge"
	case cross:
		return "proper-crossing"
	}
	return "no-boundary-contact"
}

func overlapLen(e, f exact.Seg) bool {
	// collinear segments: do they share more than one point?
	pts := []exact.P{e.A, e.B, f.A, f.B}
	var common []exact.P
	for _, p := range pts {
		if exact.OnSeg(e, exact.Lat(p)) && exact.OnSeg(f, exact.Lat(p)) {
			common = append(common, p)
		}
	}
	for i := range common {
		for j := i + 1; j < len(common); j++ {
			if common[i] != common[j] {
				return true
			}
		}
	}
	return false
}

func boxOf(s *exact.Shape) (exact.P, exact.P) {
	a, b, _ := s.Box()
	return a, b
}

func boxesIntersect(A, B *exact.Shape) bool {
	a0, a1 := boxOf(A)
	b0, b1 := boxOf(B)
	return a0.X <= b1.X && b0.X <= a1.X && a0.Y <= b1.Y && b0.Y <= a1.Y
}

func boxInside(A, B *exact.Shape) bool { // B's box inside A's box
	a0, a1 := boxOf(A)
	b0, b1 := boxOf(B)
	return a0.X <= b0.X && b1.X <= a1.X && a0.Y <= b0.Y && b1.Y <= a1.Y
}

// densifySeq inserts up to k lattice points inside every edge of a vertex sequence (closed sequences stay closed).
func densifySeq(pts []exact.P, k int) []exact.P {
	if len(pts) < 2 {
		return pts
	}
	var out []exact.P
	for i := 0; i+1 < len(pts); i++ {
		a, b := pts[i], pts[i+1]
		out = append(out, a)
		g := gcd(abs64(b.X-a.X), abs64(b.Y-a.Y))
		if g > 1 {
			n := int64(k)
			if n > g-1 {
				n = g - 1
			}
			for j := int64(1); j <= n; j++ {
				step := j * g / (n + 1)
				if step <= 0 || step >= g {
					continue
				}
				q := exact.P{X: a.X + step*((b.X-a.X)/g), Y: a.Y + step*((b.Y-a.Y)/g)}
				if q != out[len(out)-1] {
					out = append(out, q)
				}
			}
		}
	}
	return append(out, pts[len(pts)-1])
}

func densifyShape(s exact.Shape, k int) exact.Shape {
	switch s.K {
	case exact.KLine:
		t := s
		t.Line = densifySeq(s.Line, k)
		return t
	case exact.KPoly:
		t := s
		ring := func(r []exact.P) []exact.P {
			closed := len(r) >= 2 && r[0] == r[len(r)-1]
			c := r
			if !closed {
				c = append(append([]exact.P{}, r...), r[0])
			}
			d := densifySeq(c, k)
			if !closed {
				d = d[:len(d)-1]
			}
			return d
		}
		if len(s.Ext) >= 3 {
			t.Ext = ring(s.Ext)
		}
		t.Holes = nil
		for _, h := range s.Holes {
			t.Holes = append(t.Holes, ring(h))
		}
		return t
	}
	return s
}
