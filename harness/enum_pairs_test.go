package harness

// Exhaustive small-scope enumeration shared by C02 and C03 (DESIGN.md §4): fixed
// families of base shapes x all points / segments / rects / triangles with
// vertices on the half-lattice of the base shape.

import (
	"verifharness/adapt"
	"verifharness/exact"
)

func pp(xy ...int64) []exact.P {
	var out []exact.P
	for i := 0; i+1 < len(xy); i += 2 {
		out = append(out, exact.P{X: 2 * xy[i], Y: 2 * xy[i+1]})
	}
	return out
}

type baseShape struct {
	name string
	s    exact.Shape
}

func baseShapes() []baseShape {
	sq := pp(0, 0, 6, 0, 6, 6, 0, 6)
	notch := pp(0, 0, 6, 0, 6, 6, 3, 2, 0, 6)
	poly := func(ext []exact.P, holes ...[]exact.P) exact.Shape {
		return exact.Shape{K: exact.KPoly, Ext: ext, Holes: holes}
	}
	return []baseShape{
		{"square", poly(sq)},
		{"triangle", poly(pp(0, 0, 6, 0, 0, 6))},
		{"L", poly(pp(0, 0, 6, 0, 6, 2, 2, 2, 2, 6, 0, 6))},
		{"U", poly(pp(0, 0, 6, 0, 6, 6, 4, 6, 4, 2, 2, 2, 2, 6, 0, 6))},
		{"comb", poly(pp(0, 0, 6, 0, 6, 5, 5, 5, 5, 1, 4, 1, 4, 5, 2, 5, 2, 1, 1, 1, 1, 5, 0, 5))},
		{"notch", poly(notch)},
		{"star", poly(pp(3, 0, 4, 2, 6, 3, 4, 4, 3, 6, 2, 4, 0, 3, 2, 2))},
		{"square-square-hole", poly(sq, pp(2, 2, 4, 2, 4, 4, 2, 4))},
		{"square-triangle-hole", poly(sq, pp(2, 2, 4, 2, 2, 4))},
		{"notch-hole", poly(notch, pp(1, 1, 2, 1, 2, 2, 1, 2))},
		{"square-collinear-vertices", poly(pp(0, 0, 3, 0, 6, 0, 6, 3, 6, 6, 3, 6, 0, 6, 0, 3))},
		{"diamond", poly(pp(3, 0, 6, 3, 3, 6, 0, 3))},
		// two dents in the left side: the vertical x=3 runs from the middle of the upper dent's ceiling through a
		// shallow cavity and then through the two ring vertices (3,4) and (3,1) - several contacts on one probe
		// segment, the first of them nearer to the start than the middle of the whole run
		{"two-dents", poly(pp(0, 0, 6, 0, 6, 6, 0, 6, 0, 5, 4, 5, 3, 4, 0, 4, 0, 2, 3, 1))},
		{"square-two-holes", poly(sq, pp(1, 1, 2, 1, 2, 2, 1, 2), pp(3, 3, 5, 3, 5, 5, 3, 5))},
		// a concave hole: polygon material reaches into it as a spike with its tip at (3,2), so a shape can have
		// the corners of its box strictly inside the hole and still cross the spike
		{"square-notch-hole", poly(sq, pp(1, 1, 5, 1, 5, 5, 3, 2, 1, 5))},
		// an L-shaped hole whose box covers a second, square hole lying in the crook of the L: which hole "the box of a
		// probe fits into" is not which hole it lies in; both listing orders
		{"square-L-hole-square-hole", poly(sq, pp(1, 1, 5, 1, 5, 2, 2, 2, 2, 5, 1, 5), pp(3, 3, 5, 3, 5, 5, 3, 5))},
		{"square-square-hole-L-hole", poly(sq, pp(3, 3, 5, 3, 5, 5, 3, 5), pp(1, 1, 5, 1, 5, 2, 2, 2, 2, 5, 1, 5))},
		{"zigzag-line", exact.Shape{K: exact.KLine, Line: pp(0, 0, 3, 3, 6, 0, 6, 6, 3, 3)}},
		{"straight-line", exact.Shape{K: exact.KLine, Line: pp(0, 3, 2, 3, 4, 3, 6, 3)}},
		{"rect", exact.Shape{K: exact.KRect, Min: exact.P{X: 2, Y: 4}, Max: exact.P{X: 10, Y: 8}}},
		{"flat-rect", exact.Shape{K: exact.KRect, Min: exact.P{X: 2, Y: 6}, Max: exact.P{X: 10, Y: 6}}},
	}
}

// alternative encoding of a base shape: rotated start, reversed, closing vertex repeated
func altEncoding(s exact.Shape) exact.Shape {
	if s.K != exact.KPoly {
		if s.K == exact.KLine {
			t := s
			t.Line = reverseSeq(s.Line)
			return t
		}
		return s
	}
	t := s
	enc := func(r []exact.P) []exact.P {
		q := reverseSeq(rotateRing(r, len(r)/2))
		return append(q, q[0])
	}
	t.Ext = enc(s.Ext)
	t.Holes = nil
	for _, h := range s.Holes {
		t.Holes = append(t.Holes, enc(h))
	}
	return t
}

var enumEncs = []adapt.Enc{{}, {IndexKind: 1, MinPoints: 1}, {IndexKind: 2, MinPoints: 1}}

// enumPairs yields (base, probe) pairs; the probe is B, the base A.
func enumPairs(tier string, yield func(pairCase) bool) {
	thorough := tier == "thorough"
	const N = 13
	all := latticePoints(N)
	var even []exact.P
	for _, p := range all {
		if p.X%2 == 0 && p.Y%2 == 0 {
			even = append(even, p)
		}
	}
	tri := even
	if !thorough {
		tri = nil
		for _, p := range even {
			if p.X%4 == 0 && p.Y%4 == 0 {
				tri = append(tri, p)
			}
		}
	}
	n := 0
	emit := func(a, b exact.Shape) bool {
		n++
		return yield(pairCase{A: a, B: b, EA: enumEncs[n%3], EB: enumEncs[(n/3)%3]})
	}
	// a ring of exactly 257 segments (item number 256 is the first that needs two bytes in the compressed
	// indexes) and one of 259, probed at every boundary lattice point
	for _, w := range []int64{65, 66} {
		// the ring starts at (64,2) and ends at (64,0): its last, implicit closing segment (64,0)-(64,2) is the one
		// two-unit segment and lies on the right side, where the rightward rays of interior points cross it
		var ring []exact.P
		for y := int64(2); y < w; y++ {
			ring = append(ring, exact.P{X: 64, Y: y})
		}
		for x := int64(64); x > 0; x-- {
			ring = append(ring, exact.P{X: x, Y: w})
		}
		for y := w; y > 0; y-- {
			ring = append(ring, exact.P{X: 0, Y: y})
		}
		for x := int64(0); x <= 64; x++ {
			ring = append(ring, exact.P{X: x, Y: 0})
		}
		a := exact.Shape{K: exact.KPoly, Ext: ring}
		emit := func(a, b exact.Shape) bool { // every probe under every index configuration
			for _, enc := range enumEncs {
				if !yield(pairCase{A: a, B: b, EA: enc, EB: enc}) {
					return false
				}
			}
			return true
		}
		for _, e := range a.Boundary() {
			for _, p := range []exact.P{e.A, {X: (e.A.X + e.B.X) / 2, Y: (e.A.Y + e.B.Y) / 2}} {
				for _, d := range []exact.P{{X: 1, Y: 0}, {X: -1, Y: 0}, {X: 0, Y: 1}, {X: 0, Y: -1}} {
					q := exact.P{X: p.X + d.X, Y: p.Y + d.Y}
					if !emit(a, exact.Shape{K: exact.KLine, Line: []exact.P{p, q}}) || !emit(a, exact.Shape{K: exact.KPoint, Pt: q}) {
						return
					}
				}
				if !emit(a, exact.Shape{K: exact.KPoint, Pt: p}) || !emit(a, exact.Shape{K: exact.KRect, Min: p, Max: p}) {
					return
				}
			}
		}
	}
	// a comb of 84 positions whose implicit closing segment is the long back of the spine, on the right where the
	// rightward rays of interior points cross it: in an R-tree that segment is inserted after many short ones and
	// overhangs the node it lands in on both sides.  Teeth are two units high, so odd y is strictly inside a
	// tooth or a gap.
	{
		ring := []exact.P{{X: 40, Y: 0}}
		for i := int64(0); i < 20; i++ {
			ring = append(ring, exact.P{X: 0, Y: 4 * i}, exact.P{X: 0, Y: 4*i + 2}, exact.P{X: 38, Y: 4*i + 2}, exact.P{X: 38, Y: 4*i + 4})
		}
		ring = append(ring, exact.P{X: 0, Y: 80}, exact.P{X: 0, Y: 82}, exact.P{X: 40, Y: 82}) // the closing segment (40,82)-(40,0) is implicit
		a := exact.Shape{K: exact.KPoly, Ext: ring}
		if exact.ValidShape(&a) {
			for _, enc := range enumEncs {
				for y := int64(0); y <= 82; y++ {
					for _, x := range []int64{0, 1, 20, 38, 39, 40, 41} {
						q := exact.P{X: x, Y: y}
						if !yield(pairCase{A: a, B: exact.Shape{K: exact.KPoint, Pt: q}, EA: enc, EB: enc}) ||
							!yield(pairCase{A: a, B: exact.Shape{K: exact.KLine, Line: []exact.P{q, {X: x + 3, Y: y}}}, EA: enc, EB: enc}) {
							return
						}
					}
				}
			}
		}
	}
	// a U-shaped hole (a tongue of polygon material hangs into it from the top): open lines that run down one
	// arm, along the bottom and up the other arm stay strictly inside the hole although the chord between
	// their ends crosses the tongue - an open line is not a closed cycle
	{
		a := exact.Shape{K: exact.KPoly, Ext: pp(0, 0, 12, 0, 12, 12, 0, 12),
			Holes: [][]exact.P{pp(1, 1, 11, 1, 11, 11, 8, 11, 8, 4, 4, 4, 4, 11, 1, 11)}}
		if exact.ValidShape(&a) {
			k := 0
			for _, x1 := range []int64{2, 3} {
				for y1 := int64(2); y1 <= 10; y1 += 2 {
					for _, yb := range []int64{2, 3} {
						for _, x4 := range []int64{9, 10} {
							for y4 := int64(2); y4 <= 11; y4 += 3 {
								ln := pp(x1, y1, x1, yb, x4, yb, x4, y4) // pp works in half units, like the bases
								for _, l := range [][]exact.P{ln, reverseSeq(ln), append(append([]exact.P{}, ln...), ln[0])} {
									k++
									if !yield(pairCase{A: a, B: exact.Shape{K: exact.KLine, Line: l}, EA: enumEncs[k%3], EB: enumEncs[(k/3)%3]}) {
										return
									}
								}
							}
						}
					}
				}
			}
		}
	}
	for _, bs := range baseShapes() {
		variants := []exact.Shape{bs.s}
		swap := func(p exact.P) exact.P { return exact.P{X: p.Y, Y: p.X} }
		switch bs.name {
		case "L", "U", "comb", "notch", "notch-hole", "two-dents", "zigzag-line", "straight-line", "flat-rect":
			// the same shape with x and y exchanged: dents on vertical sides, vertical collinear runs
			variants = append(variants, mapShape(bs.s, swap))
		}
		if thorough {
			variants = append(variants, altEncoding(bs.s))
		}
		for _, a := range variants {
			for _, p := range all {
				if !emit(a, exact.Shape{K: exact.KPoint, Pt: p}) {
					return
				}
			}
			for _, p := range all {
				for _, q := range all {
					ln := exact.Shape{K: exact.KLine, Line: []exact.P{p, q}}
					if !emit(a, ln) {
						return
					}
					if a.K != exact.KPoly && !emit(ln, a) { // a line or flat rect inside the probe line
						return
					}
					if p.X <= q.X && p.Y <= q.Y {
						rc := exact.Shape{K: exact.KRect, Min: p, Max: q}
						if !emit(a, rc) || !emit(rc, a) {
							return
						}
					}
				}
			}
			for i := 0; i < len(tri); i++ {
				for j := i + 1; j < len(tri); j++ {
					for k := j + 1; k < len(tri); k++ {
						if exact.Orient(tri[i], tri[j], tri[k]) == 0 {
							continue
						}
						ring := []exact.P{tri[i], tri[j], tri[k]}
						if (i+j+k)%2 == 0 {
							ring = []exact.P{tri[k], tri[j], tri[i], tri[k]}
						}
						if !emit(a, exact.Shape{K: exact.KPoly, Ext: ring}) {
							return
						}
					}
				}
			}
			// boundary-to-boundary segments under every rotation and both directions of the exterior ring: the
			// contact case analysis sees the ring's segments in ring order, so the start vertex matters
			if a.K == exact.KPoly {
				var onB []exact.P
				bnd := a.Boundary()
				for _, p := range all {
					for _, e := range bnd {
						if exact.OnSeg(e, exact.Lat(p)) {
							onB = append(onB, p)
							break
						}
					}
				}
				ext := exact.Unclose(a.Ext)
				for r := 1; r < len(ext); r++ {
					rot := a
					rot.Ext = rotateRing(a.Ext, r)
					if r%2 == 1 {
						rot.Ext = reverseSeq(rot.Ext)
					}
					for _, p := range onB {
						for _, q := range onB {
							if p == q {
								continue
							}
							if !emit(rot, exact.Shape{K: exact.KLine, Line: []exact.P{p, q}}) {
								return
							}
						}
					}
				}
			}
			// shapes of 16 and more positions (the rectangle shortcut of ringContainsRing): every rect of the even
			// lattice as a 16-vertex ring and as a 16-position line, against the base scaled by two
			if a.K == exact.KPoly && len(a.Holes) > 0 {
				dbl := func(p exact.P) exact.P { return exact.P{X: 2 * p.X, Y: 2 * p.Y} }
				a2 := mapShape(a, dbl)
				for _, p := range even {
					for _, q := range even {
						if p.X >= q.X || p.Y >= q.Y {
							continue
						}
						ring := []exact.P{dbl(p), dbl(exact.P{X: q.X, Y: p.Y}), dbl(q), dbl(exact.P{X: p.X, Y: q.Y}), dbl(p)}
						dense := densifySeq(ring, 3)
						if !emit(a2, exact.Shape{K: exact.KPoly, Ext: dense}) || !emit(a2, exact.Shape{K: exact.KLine, Line: dense}) {
							return
						}
					}
				}
			}
			// polygons with a hole of their own against a base with two holes, in both hole orders: a hole of B may
			// cover one hole of A while B's body overlaps the other
			if a.K == exact.KPoly && len(a.Holes) == 2 {
				var quarter []exact.P
				for _, p := range even {
					if p.X%4 == 0 && p.Y%4 == 0 {
						quarter = append(quarter, p)
					}
				}
				swapped := a
				swapped.Holes = [][]exact.P{a.Holes[1], a.Holes[0]}
				rectRing := func(p, q exact.P) []exact.P {
					return []exact.P{p, {X: q.X, Y: p.Y}, q, {X: p.X, Y: q.Y}, p}
				}
				for _, p := range quarter {
					for _, q := range quarter {
						if p.X >= q.X || p.Y >= q.Y {
							continue
						}
						for _, hp := range even {
							for _, hq := range even {
								if hp.X >= hq.X || hp.Y >= hq.Y || hp.X <= p.X || hp.Y <= p.Y || hq.X >= q.X || hq.Y >= q.Y {
									continue
								}
								if (hq.X-hp.X) > 6 || (hq.Y-hp.Y) > 6 {
									continue
								}
								b := exact.Shape{K: exact.KPoly, Ext: rectRing(p, q), Holes: [][]exact.P{rectRing(hp, hq)}}
								if !emit(a, b) || !emit(swapped, b) {
									return
								}
							}
						}
					}
				}
			}
			if thorough {
				// three-point polylines on the even lattice
				for _, p := range even {
					for _, q := range even {
						for _, r := range even {
							if !emit(a, exact.Shape{K: exact.KLine, Line: []exact.P{p, q, r}}) {
								return
							}
						}
					}
				}
			}
		}
	}
}

const enumPairsSpace = "19 base shapes, the concave ones also with x and y exchanged (convex, L, U, comb, notch, two dents, star, with 1-2 holes incl. a concave one, collinear vertices, lines, rects) on the even 7x7 lattice x every point, every 2-point line and every rect of the 13x13 half-lattice and every triangle of a sub-lattice (thorough: a second encoding of each base, all triangles of the even lattice, all 3-point polylines), every boundary-to-boundary segment under every rotation of the exterior ring; for bases with holes every even-lattice rect as a 16-vertex ring and line; index none / R-tree / quadtree rotating"
