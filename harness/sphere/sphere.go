// Package sphere is the independent great-circle model (DESIGN.md §3.4):
// positions are 3-D unit vectors, distance is R*atan2(|a x b|, a.b), the
// destination is p*cos(d) + (n*cos(t) + e*sin(t))*sin(d).  It shares no formula
// with geo.go (haversine, asin/acos).
package sphere

import "math"

const R = 6371e3

const (
	rad = math.Pi / 180
	deg = 180 / math.Pi
)

type Vec struct{ X, Y, Z float64 }

func FromLatLon(lat, lon float64) Vec {
	sl, cl := math.Sincos(lat * rad)
	so, co := math.Sincos(lon * rad)
	return Vec{cl * co, cl * so, sl}
}

func (a Vec) Dot(b Vec) float64 { return a.X*b.X + a.Y*b.Y + a.Z*b.Z }
func (a Vec) Cross(b Vec) Vec {
	return Vec{a.Y*b.Z - a.Z*b.Y, a.Z*b.X - a.X*b.Z, a.X*b.Y - a.Y*b.X}
}
func (a Vec) Norm() float64       { return math.Sqrt(a.Dot(a)) }
func (a Vec) Scale(k float64) Vec { return Vec{a.X * k, a.Y * k, a.Z * k} }
func (a Vec) Add(b Vec) Vec       { return Vec{a.X + b.X, a.Y + b.Y, a.Z + b.Z} }

func (a Vec) LatLon() (lat, lon float64) {
	return math.Atan2(a.Z, math.Hypot(a.X, a.Y)) * deg, math.Atan2(a.Y, a.X) * deg
}

// Angle is the central angle between two unit vectors, well conditioned everywhere.
func Angle(a, b Vec) float64 { return math.Atan2(a.Cross(b).Norm(), a.Dot(b)) }

// Distance in metres between two lat/lon locations.
func Distance(latA, lonA, latB, lonB float64) float64 {
	return R * Angle(FromLatLon(latA, lonA), FromLatLon(latB, lonB))
}

// frame returns the local north and east unit tangents at lat/lon.
func frame(lat, lon float64) (n, e Vec) {
	sl, cl := math.Sincos(lat * rad)
	so, co := math.Sincos(lon * rad)
	return Vec{-sl * co, -sl * so, cl}, Vec{-so, co, 0}
}

// Destination travels metres along the initial bearing (degrees clockwise from north).
func Destination(lat, lon, metres, bearing float64) Vec {
	p := FromLatLon(lat, lon)
	n, e := frame(lat, lon)
	sd, cd := math.Sincos(metres / R)
	st, ct := math.Sincos(bearing * rad)
	return p.Scale(cd).Add(n.Scale(ct * sd)).Add(e.Scale(st * sd))
}

// Bearing is the initial bearing in [0,360) from A to B.
func Bearing(latA, lonA, latB, lonB float64) float64 {
	n, e := frame(latA, lonA)
	b := FromLatLon(latB, lonB)
	t := math.Atan2(b.Dot(e), b.Dot(n)) * deg
	if t < 0 {
		t += 360
	}
	return t
}

// GroundDistanceVec is the distance in metres between two unit vectors.
func GroundDistanceVec(a, b Vec) float64 { return R * Angle(a, b) }
