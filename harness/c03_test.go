package harness

// C03 — contains / within is exact planar containment (DESIGN.md §4 C03).

import (
	"fmt"
	"testing"

	"pgregory.net/rapid"
	"verifharness/adapt"
	"verifharness/exact"
	"verifharness/fw"
	"verifharness/kf"
)

func c03Check(c pairCase) fw.Outcome {
	A, B := &c.A, &c.B
	want, w := exact.Contains(A, B)
	if w != nil && (want || !B.Member(*w) || A.Member(*w)) {
		return fw.Outcome{Infra: "oracle self-check: contains witness is not in B \\ A"}
	}
	contact := contactClass(A, B)
	label := fmt.Sprintf("%s-%s/%s/%v", A.K, B.K, contact, want)
	nonConvexOrHole := A.K == exact.KPoly && (len(A.Holes) > 0 || !convexOracle(exact.Unclose(A.Ext)))
	nt := boxInside(A, B) && (contact != "no-boundary-contact" || nonConvexOrHole)
	if want && (shapeHash(A)^shapeHash(B))%32 == 0 {
		if q := gridRefute(A, B, func(q exact.Q) bool { return B.Member(q) && !A.Member(q) }); q != nil {
			return fw.Outcome{Infra: "oracle self-check: contains=true but grid point " + q.String() + " is in B and not in A"}
		}
	}
	pl := buildPair(&c)
	ws := ""
	if w != nil {
		ws = " witness " + w.String() + " is in B and not in A;"
	}
	type call struct {
		name string
		got  bool
	}
	calls := []call{{"A.Contains(B)", adapt.Call("contains", pl.ga, pl.gb)}}
	if pl.ga0 != pl.ga || pl.gb0 != pl.gb {
		calls = append(calls, call{"index-free A.Contains(B)", adapt.Call("contains", pl.ga0, pl.gb0)})
	}
	oa, ob := adapt.Obj(A, c.EA, 0), adapt.Obj(B, c.EB, 0)
	calls = append(calls, call{"object A.Contains(B)", oa.Contains(ob)}, call{"object B.Within(A)", ob.Within(oa)})
	if shapePoints(A) >= 60 || shapePoints(B) >= 60 {
		dx, dy := adapt.F(7, c.EA.Scale), adapt.F(-3, c.EA.Scale)
		calls = append(calls, call{"after Move of both: A.Contains(B)", adapt.Call("contains", moveGeom(pl.ga, dx, dy), moveGeom(pl.gb, dx, dy))})
	}
	for _, cl := range calls {
		if cl.got != want {
			if id := c03Known(&c, cl.got, want, w); id != "" {
				return fw.Outcome{Label: label, Known: id, Fail: "known"}
			}
			return fw.Failf(label, "%s = %v, exact %v;%s %s", cl.name, cl.got, want, ws, pairString(&c))
		}
	}
	return fw.OK(label, nt)
}

// c03Known matches a disagreement against the enabled defect models (DESIGN.md §3.6).
//
// KF-HOLEFILL (F6): a polygon / rect B whose exterior ring is, as a point set,
// exactly a hole H of A is reported contained (poly.go's hole rule only asks
// whether a piece of B's exterior lies strictly inside H, or of H inside B's
// exterior; when the two rings coincide neither does).  The pinned test
// TestPolyContainsPoly asserts this answer.  The model holds only if (1) the
// library said true and the oracle false, (2) the oracle's witness is strictly
// inside H, (3) every edge of H lies along B's exterior ring and vice versa,
// and (4) with H removed from A the oracle says "contains", i.e. H is the only
// reason for the disagreement.
func c03Known(c *pairCase, got, want bool, w *exact.Q) string {
	if !got || want || w == nil || c.A.K != exact.KPoly || !c.B.HasArea() {
		return ""
	}
	if !kf.Enabled("C03", "KF-HOLEFILL") {
		return ""
	}
	bext := c.B.Ext
	if c.B.K == exact.KRect {
		bext = []exact.P{c.B.Min, {X: c.B.Max.X, Y: c.B.Min.Y}, c.B.Max, {X: c.B.Min.X, Y: c.B.Max.Y}}
	}
	for hi, h := range c.A.Holes {
		if in, on := exact.PointInRing(exact.RingEdges(h), *w); !in || on {
			continue
		}
		if !ringsCoincide(h, bext) {
			continue
		}
		rest := c.A
		rest.Holes = append(append([][]exact.P{}, c.A.Holes[:hi]...), c.A.Holes[hi+1:]...)
		if ok, _ := exact.Contains(&rest, &c.B); ok {
			return "KF-HOLEFILL"
		}
	}
	return ""
}

// ringsCoincide reports whether two rings are the same point set.
func ringsCoincide(a, b []exact.P) bool {
	ca := exact.Shape{K: exact.KLine, Line: closeRing(a)}
	cb := exact.Shape{K: exact.KLine, Line: closeRing(b)}
	for _, e := range exact.RingEdges(a) {
		if ok, _ := exact.SegSubset(e, &cb); !ok {
			return false
		}
	}
	for _, e := range exact.RingEdges(b) {
		if ok, _ := exact.SegSubset(e, &ca); !ok {
			return false
		}
	}
	return true
}

func closeRing(r []exact.P) []exact.P {
	if len(r) > 0 && r[0] != r[len(r)-1] {
		return append(append([]exact.P{}, r...), r[0])
	}
	return r
}

func c03Gen(t *rapid.T) pairCase {
	ka := exact.Kind(rapid.IntRange(0, 3).Draw(t, "ka"))
	kb := exact.Kind(rapid.IntRange(0, 3).Draw(t, "kb"))
	if rapid.IntRange(0, 2).Draw(t, "polyA") == 0 {
		ka = exact.KPoly
	}
	return genPair(t, ka, kb, 8, false, true)
}

func c03Subs() []fw.Sub {
	return []fw.Sub{fw.Prop[pairCase]{
		Name:       "contains-enumerated",
		Exhaustive: enumPairsSpace,
		Enum:       enumPairs,
		Check:      c03Check,
	}, fw.Prop[pairCase]{
		Name: "contains-random",
		Checks: func(tier string) int {
			if tier == "thorough" {
				return 600000
			}
			return 30000
		},
		Gen:    c03Gen,
		Check:  c03Check,
		Shrink: shrinkPair,
	}}
}

func TestC03(t *testing.T) { fw.Main(t, "C03", c03Subs(), nil) }
