package harness

// C08 — parse options never change what an object means (DESIGN.md §4 C08).

import (
	"fmt"
	"reflect"
	"testing"

	"github.com/tidwall/geojson"
	"github.com/tidwall/geojson/geometry"
	"pgregory.net/rapid"
	"verifharness/fw"
	"verifharness/gj"
	"verifharness/refjson"
)

type c08Case struct {
	Text string    `json:"text"`
	Opts optsModel `json:"opts"`
}

// anyInvalid: the object or a nested object of one of the nine standard types reports itself invalid.
func anyInvalid(o geojson.Object) bool {
	switch x := o.(type) {
	case *geojson.Circle:
		// the Circle itself is not one of the nine standard types, but the document
		// holds its centre as a nested Point, which is
		return !x.Center().Valid()
	case *geojson.Feature:
		return anyInvalid(x.Base())
	case geojson.Collection:
		for _, c := range x.Children() {
			if anyInvalid(c) {
				return true
			}
		}
		if _, plainColl := o.(*geojson.GeometryCollection); plainColl {
			return false
		}
		if _, fc := o.(*geojson.FeatureCollection); fc {
			return false
		}
		return !o.Valid() && len(x.Children()) > 0
	}
	return !o.Valid()
}

func hasCircle(o geojson.Object) bool {
	switch x := o.(type) {
	case *geojson.Circle:
		return true
	case *geojson.Feature:
		return hasCircle(x.Base())
	case geojson.Collection:
		for _, c := range x.Children() {
			if hasCircle(c) {
				return true
			}
		}
	}
	return false
}

// sameKinds compares the dynamic kinds of two object trees modulo the representation options.
func sameKinds(path string, a, b geojson.Object) string {
	ka, kb := goTypeJSONName(a), goTypeJSONName(b)
	_, ca := a.(*geojson.Circle)
	_, cb := b.(*geojson.Circle)
	if ka != kb || ca != cb {
		return fmt.Sprintf("%s: %T under default options, %T under the other options", path, a, b)
	}
	switch x := a.(type) {
	case *geojson.Feature:
		return sameKinds(path+".geometry", x.Base(), b.(*geojson.Feature).Base())
	case geojson.Collection:
		ch, dh := x.Children(), b.(geojson.Collection).Children()
		if len(ch) != len(dh) {
			return fmt.Sprintf("%s: %d children vs %d", path, len(ch), len(dh))
		}
		for i := range ch {
			if m := sameKinds(fmt.Sprintf("%s[%d]", path, i), ch[i], dh[i]); m != "" {
				return m
			}
		}
	}
	return ""
}

func c08Check(c c08Case) fw.Outcome {
	base, berr, ch1 := parseWatched(c.Text, defaultOptsModel.lib())
	alt, aerr, ch2 := parseWatched(c.Text, c.Opts.lib())
	if ch1+ch2 != "" {
		return fw.Failf("options-untouched", "%s", ch1+ch2)
	}
	// the same text once more under the package defaults (nil options)
	if _, _, ch3 := parseWatched(c.Text, nil); ch3 != "" {
		return fw.Failf("options-untouched", "%s", ch3)
	}
	if berr != nil {
		if aerr == nil {
			return fw.Failf("rejected-by-default", "options %+v turn a rejection (%v) into acceptance; text %q", c.Opts, berr, c.Text)
		}
		return fw.Outcome{Label: "rejected-by-default", Skip: true}
	}
	v, ref, _ := refjson.Classify(c.Text)
	finite := v == refjson.Accept && !hasNaNOrBig(ref)
	if c.Opts.DisableCircleType != defaultOptsModel.DisableCircleType && hasCircle(base) {
		return fw.Outcome{Label: "circle convention disabled", Skip: true} // a different document meaning by design
	}
	label := "index-options"
	repr := c.Opts.AllowSimplePoints || c.Opts.AllowRects
	if repr {
		label = "representation-options"
	}
	if c.Opts.RequireValid {
		label = "require-valid"
		wantReject := anyInvalid(base)
		if wantReject {
			if aerr == nil {
				return fw.Failf(label+"/reject", "RequireValid accepted a document whose object (or a nested one) reports Valid() == false: %q parsed to %s", c.Text, alt.JSON())
			}
			return fw.OK(label+"/reject", true)
		}
		if aerr != nil {
			return fw.Failf(label+"/accept", "RequireValid rejected (%v) a document whose objects are all valid; text %q", aerr, c.Text)
		}
		if !alt.Valid() && !hasCircle(alt) {
			return fw.Failf(label+"/accept", "object returned under RequireValid reports Valid() == false; text %q", c.Text)
		}
	} else if aerr != nil {
		return fw.Failf(label, "options %+v turn acceptance into rejection (%v); text %q", c.Opts, aerr, c.Text)
	}
	if m := sameKinds("$", base, alt); m != "" {
		return fw.Failf(label, "%s; text %q opts %+v", m, c.Text, c.Opts)
	}
	if bj, aj := base.JSON(), alt.JSON(); bj != aj {
		return fw.Failf(label, "JSON differs: %q under default options, %q under %+v; text %q", bj, aj, c.Opts, c.Text)
	}
	if !repr && base.NumPoints() != alt.NumPoints() {
		return fw.Failf(label, "NumPoints %d vs %d under %+v; text %q", base.NumPoints(), alt.NumPoints(), c.Opts, c.Text)
	}
	var own []geojson.Object
	if finite {
		own = ownProbes(ref)
	}
	if m := sameBehaviourNoCount(base, alt, finite, own...); m != "" {
		return fw.Failf(label, "answers differ between default options and %+v: %s; text %q", c.Opts, m, c.Text)
	}
	// non-trivial: the options actually change the representation
	changed := reflect.TypeOf(base) != reflect.TypeOf(alt) || c.Opts.RequireValid || indexedDiffers(base, alt)
	return fw.OK(label, changed)
}

// ownProbes builds probe objects from the document's own positions: points at its vertices and the short
// lines between consecutive vertices, which touch the geometry exactly where an index prunes.
func ownProbes(ref *refjson.Ref) []geojson.Object {
	var pos []refjson.Pos
	var walk func(r *refjson.Ref)
	walk = func(r *refjson.Ref) {
		if r.Type == "Point" {
			pos = append(pos, r.Pt)
		}
		pos = append(pos, r.Line...)
		for _, rg := range r.Rings {
			pos = append(pos, rg...)
		}
		for _, c := range r.Children {
			walk(c)
		}
	}
	walk(ref)
	var out []geojson.Object
	step := 1
	if len(pos) > 90 {
		step = len(pos) / 90
	}
	for i := 0; i < len(pos); i += step {
		p := geometry.Point{X: pos[i].X, Y: pos[i].Y}
		out = append(out, geojson.NewPoint(p))
		if i+1 < len(pos) {
			q := geometry.Point{X: pos[i+1].X, Y: pos[i+1].Y}
			out = append(out, geojson.NewLineString(geometry.NewLine([]geometry.Point{p, q}, nil)))
		}
	}
	return out
}

func sameBehaviourNoCount(a, b geojson.Object, predicates bool, extra ...geojson.Object) string {
	ra, rb := a.Rect(), b.Rect()
	if !(sameF(ra.Min.X, rb.Min.X) && sameF(ra.Min.Y, rb.Min.Y) && sameF(ra.Max.X, rb.Max.X) && sameF(ra.Max.Y, rb.Max.Y)) {
		return fmt.Sprintf("Rect %v vs %v", ra, rb)
	}
	if a.Empty() != b.Empty() {
		return fmt.Sprintf("Empty %v vs %v", a.Empty(), b.Empty())
	}
	if a.Valid() != b.Valid() {
		return fmt.Sprintf("Valid %v vs %v", a.Valid(), b.Valid())
	}
	if !predicates {
		return ""
	}
	probes := append([]geojson.Object{}, c06Probes...)
	probes = append(probes, geojson.NewPoint(ra.Center()), geojson.NewRect(ra), geojson.NewSimplePoint(ra.Min))
	probes = append(probes, extra...)
	for i, p := range probes {
		if x, y := a.Contains(p), b.Contains(p); x != y {
			return fmt.Sprintf("Contains(probe %d %s) %v vs %v", i, p.JSON(), x, y)
		}
		if x, y := a.Within(p), b.Within(p); x != y {
			return fmt.Sprintf("Within(probe %d %s) %v vs %v", i, p.JSON(), x, y)
		}
		if x, y := a.Intersects(p), b.Intersects(p); x != y {
			return fmt.Sprintf("Intersects(probe %d %s) %v vs %v", i, p.JSON(), x, y)
		}
		if x, y := p.Intersects(a), p.Intersects(b); x != y {
			return fmt.Sprintf("probe %d %s .Intersects %v vs %v", i, p.JSON(), x, y)
		}
		if x, y := p.Contains(a), p.Contains(b); x != y {
			return fmt.Sprintf("probe %d %s .Contains %v vs %v", i, p.JSON(), x, y)
		}
		if x, y := p.Within(a), p.Within(b); x != y {
			return fmt.Sprintf("probe %d %s .Within %v vs %v", i, p.JSON(), x, y)
		}
	}
	return ""
}

func indexedDiffers(a, b geojson.Object) bool {
	idx := func(o geojson.Object) string {
		s := ""
		var walk func(o geojson.Object)
		walk = func(o geojson.Object) {
			switch x := o.(type) {
			case *geojson.LineString:
				s += fmt.Sprint(x.Base().Index() != nil)
			case *geojson.Polygon:
				if x.Base().Exterior != nil {
					s += fmt.Sprint(x.Base().Exterior.Index() != nil)
				}
			case *geojson.Feature:
				walk(x.Base())
			case geojson.Collection:
				s += fmt.Sprint(x.Indexed())
				for _, c := range x.Children() {
					walk(c)
				}
			}
		}
		walk(o)
		return s
	}
	return idx(a) != idx(b)
}

func c08Gen(t *rapid.T) c08Case {
	class := rapid.IntRange(0, 2).Draw(t, "optclass")
	text := gj.Doc(t, gj.Opts{MaxDepth: 3, Noise: rapid.Bool().Draw(t, "noise"), Lattice: rapid.IntRange(0, 3).Draw(t, "lattice") > 0,
		Mutations: rapid.SampledFrom([]int{0, 0, 0, 1}).Draw(t, "nmut"), RectBias: class >= 1, LongBias: class == 0})
	var o optsModel
	switch class {
	case 0: // index options only
		o = defaultOptsModel
		o.IndexChildren = rapid.SampledFrom([]int{0, 1, 2, 3, 4, 64}).Draw(t, "ichildren")
		o.IndexGeometry = rapid.SampledFrom([]int{0, 1, 2, 3, 4, 5, 6, 64}).Draw(t, "igeom")
		o.IndexGeometryKind = rapid.SampledFrom([]int{0, 1, 2, 2}).Draw(t, "ikind")
	case 1: // representation options
		o = defaultOptsModel
		o.AllowSimplePoints = rapid.Bool().Draw(t, "simple")
		o.AllowRects = rapid.Bool().Draw(t, "rects")
		if !o.AllowRects && !o.AllowSimplePoints {
			o.AllowSimplePoints = true
		}
	default:
		o = defaultOptsModel
		o.RequireValid = true
		o.AllowSimplePoints = rapid.IntRange(0, 3).Draw(t, "simple") == 0
		o.AllowRects = rapid.Bool().Draw(t, "rects") // validity must be judged before the representation shortcut returns
	}
	return c08Case{Text: text, Opts: o}
}

func c08Subs() []fw.Sub {
	return []fw.Sub{fw.Prop[c08Case]{
		Name: "options",
		Checks: func(tier string) int {
			if tier == "thorough" {
				return 400000
			}
			return 25000
		},
		Gen: c08Gen, Check: c08Check,
	}}
}

func TestC08(t *testing.T) { fw.Main(t, "C08", c08Subs(), nil) }
