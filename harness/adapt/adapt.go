// Package adapt turns oracle-side models into library objects and calls.
package adapt

import (
	"math"

	"github.com/tidwall/geojson"
	"github.com/tidwall/geojson/geometry"
	"verifharness/exact"
)

// Enc is how one shape is handed to the library.
type Enc struct {
	Scale     int `json:"scale"`      // coordinates are multiplied by 2^Scale
	IndexKind int `json:"index_kind"` // 0 none, 1 R-tree, 2 quadtree
	MinPoints int `json:"min_points"` // index threshold (0 = never index)
}

func (e Enc) Opts() *geometry.IndexOptions {
	return &geometry.IndexOptions{Kind: geometry.IndexKind(e.IndexKind), MinPoints: e.MinPoints}
}

// F converts a lattice ordinate.
func F(m int64, scale int) float64 { return math.Ldexp(float64(m), scale) }

func Pt(p exact.P, scale int) geometry.Point {
	return geometry.Point{X: F(p.X, scale), Y: F(p.Y, scale)}
}

func Pts(ps []exact.P, scale int) []geometry.Point {
	o := make([]geometry.Point, len(ps))
	for i, p := range ps {
		o[i] = Pt(p, scale)
	}
	return o
}

func Seg(s exact.Seg, scale int) geometry.Segment {
	return geometry.Segment{A: Pt(s.A, scale), B: Pt(s.B, scale)}
}

// Geom builds the geometry-level object.
func Geom(s *exact.Shape, e Enc) geometry.Geometry {
	switch s.K {
	case exact.KPoint:
		return Pt(s.Pt, e.Scale)
	case exact.KRect:
		return geometry.Rect{Min: Pt(s.Min, e.Scale), Max: Pt(s.Max, e.Scale)}
	case exact.KLine:
		pts := Pts(s.Line, e.Scale)
		l := geometry.NewLine(pts, e.Opts())
		Scribble(pts)
		return l
	}
	var hs [][]geometry.Point
	for _, h := range s.Holes {
		hs = append(hs, Pts(h, e.Scale))
	}
	ext := Pts(s.Ext, e.Scale)
	p := geometry.NewPoly(ext, hs, e.Opts())
	Scribble(ext)
	for _, h := range hs {
		Scribble(h)
	}
	return p
}

// Scribble overwrites a slice that was handed to a constructor: the constructed object must not
// share it (a caller is free to reuse its buffer once the constructor has returned).
func Scribble(pts []geometry.Point) {
	for i := range pts {
		pts[i] = geometry.Point{X: 12345.678 + float64(i), Y: -9876.5}
	}
}

// Obj builds the GeoJSON-level object; variant selects alternative representations:
// bit 0: SimplePoint instead of Point; bit 1: wrap in a Feature.
func Obj(s *exact.Shape, e Enc, variant int) geojson.Object {
	var o geojson.Object
	switch g := Geom(s, e).(type) {
	case geometry.Point:
		if variant&1 != 0 {
			o = geojson.NewSimplePoint(g)
		} else {
			o = geojson.NewPoint(g)
		}
	case geometry.Rect:
		o = geojson.NewRect(g)
	case *geometry.Line:
		o = geojson.NewLineString(g)
	case *geometry.Poly:
		o = geojson.NewPolygon(g)
	}
	if variant&2 != 0 {
		o = geojson.NewFeature(o, "")
	}
	return o
}

// Call evaluates a.<op><KindOf b>(b) at geometry level; op is "contains" or "intersects".
func Call(op string, a, b geometry.Geometry) bool {
	c := op == "contains"
	switch v := b.(type) {
	case geometry.Point:
		if c {
			return a.ContainsPoint(v)
		}
		return a.IntersectsPoint(v)
	case geometry.Rect:
		if c {
			return a.ContainsRect(v)
		}
		return a.IntersectsRect(v)
	case *geometry.Line:
		if c {
			return a.ContainsLine(v)
		}
		return a.IntersectsLine(v)
	case *geometry.Poly:
		if c {
			return a.ContainsPoly(v)
		}
		return a.IntersectsPoly(v)
	}
	panic("adapt.Call: unknown geometry")
}
