package harness

// Comparison of a library object with the reference tree (C06, C07, C08).

import (
	"fmt"
	"math"

	"github.com/tidwall/geojson"
	"github.com/tidwall/geojson/geometry"
	"verifharness/refjson"
)

func sameF(a, b float64) bool {
	if math.IsNaN(a) || math.IsNaN(b) {
		return math.IsNaN(a) && math.IsNaN(b)
	}
	return math.Float64bits(a) == math.Float64bits(b)
}

func samePt(p geometry.Point, r refjson.Pos) bool { return sameF(p.X, r.X) && sameF(p.Y, r.Y) }

func compareSeries(path string, s geometry.Series, want []refjson.Pos) string {
	if s.NumPoints() != len(want) {
		return fmt.Sprintf("%s: %d positions, document has %d", path, s.NumPoints(), len(want))
	}
	for i, w := range want {
		if !samePt(s.PointAt(i), w) {
			return fmt.Sprintf("%s position %d: (%v,%v), document says (%v,%v)", path, i, s.PointAt(i).X, s.PointAt(i).Y, w.X, w.Y)
		}
	}
	return ""
}

// compareRef returns "" when obj has the type, nesting, child order and x,y values of ref.
func compareRef(path string, ref *refjson.Ref, obj geojson.Object) string {
	switch ref.Type {
	case "Point":
		switch o := obj.(type) {
		case *geojson.Point:
			if !samePt(o.Base(), ref.Pt) {
				return fmt.Sprintf("%s: Point (%v,%v), document says (%v,%v)", path, o.Base().X, o.Base().Y, ref.Pt.X, ref.Pt.Y)
			}
		case *geojson.SimplePoint:
			if !samePt(o.Base(), ref.Pt) {
				return fmt.Sprintf("%s: SimplePoint (%v,%v), document says (%v,%v)", path, o.Base().X, o.Base().Y, ref.Pt.X, ref.Pt.Y)
			}
		default:
			return fmt.Sprintf("%s: %T for a Point document", path, obj)
		}
	case "LineString":
		o, ok := obj.(*geojson.LineString)
		if !ok {
			return fmt.Sprintf("%s: %T for a LineString document", path, obj)
		}
		return compareSeries(path, o.Base(), ref.Line)
	case "Polygon":
		switch o := obj.(type) {
		case *geojson.Polygon:
			b := o.Base()
			if len(b.Holes)+1 != len(ref.Rings) {
				return fmt.Sprintf("%s: %d rings, document has %d", path, len(b.Holes)+1, len(ref.Rings))
			}
			if m := compareSeries(path+".ring0", b.Exterior, ref.Rings[0]); m != "" {
				return m
			}
			for i, h := range b.Holes {
				if m := compareSeries(fmt.Sprintf("%s.ring%d", path, i+1), h, ref.Rings[i+1]); m != "" {
					return m
				}
			}
		case *geojson.Rect:
			if len(ref.Rings) != 1 || len(ref.Rings[0]) != 5 {
				return fmt.Sprintf("%s: Rect for a polygon that is not a five-point ring", path)
			}
			r := o.Base()
			for i, w := range ref.Rings[0] {
				if !samePt(r.PointAt(i), w) {
					return fmt.Sprintf("%s: Rect corner %d is %v, document says (%v,%v)", path, i, r.PointAt(i), w.X, w.Y)
				}
			}
		default:
			return fmt.Sprintf("%s: %T for a Polygon document", path, obj)
		}
	case "MultiPoint", "MultiLineString", "MultiPolygon", "GeometryCollection", "FeatureCollection":
		ok := false
		switch obj.(type) {
		case *geojson.MultiPoint:
			ok = ref.Type == "MultiPoint"
		case *geojson.MultiLineString:
			ok = ref.Type == "MultiLineString"
		case *geojson.MultiPolygon:
			ok = ref.Type == "MultiPolygon"
		case *geojson.GeometryCollection:
			ok = ref.Type == "GeometryCollection"
		case *geojson.FeatureCollection:
			ok = ref.Type == "FeatureCollection"
		}
		if !ok {
			return fmt.Sprintf("%s: %T for a %s document", path, obj, ref.Type)
		}
		ch := obj.(geojson.Collection).Children()
		if len(ch) != len(ref.Children) {
			return fmt.Sprintf("%s: %d children, document has %d", path, len(ch), len(ref.Children))
		}
		for i, c := range ch {
			if m := compareRef(fmt.Sprintf("%s[%d]", path, i), ref.Children[i], c); m != "" {
				return m
			}
		}
	case "Feature":
		if ref.Circle {
			o, ok := obj.(*geojson.Circle)
			if !ok {
				return fmt.Sprintf("%s: %T for a Feature carrying the Circle convention", path, obj)
			}
			if !samePt(o.Center(), ref.Children[0].Pt) {
				return fmt.Sprintf("%s: Circle centre %v, document says (%v,%v)", path, o.Center(), ref.Children[0].Pt.X, ref.Children[0].Pt.Y)
			}
			if !sameF(o.Meters(), ref.Radius) {
				return fmt.Sprintf("%s: Circle radius %v m, document says %v m", path, o.Meters(), ref.Radius)
			}
			return ""
		}
		o, ok := obj.(*geojson.Feature)
		if !ok {
			return fmt.Sprintf("%s: %T for a Feature document", path, obj)
		}
		return compareRef(path+".geometry", ref.Children[0], o.Base())
	}
	return ""
}

// sameRefXY compares two reference trees on type, nesting, order and x,y.
func sameRefXY(path string, a, b *refjson.Ref) string {
	if a.Type != b.Type || a.Circle != b.Circle {
		return fmt.Sprintf("%s: type %s (circle %v) vs %s (circle %v)", path, a.Type, a.Circle, b.Type, b.Circle)
	}
	eqPos := func(x, y refjson.Pos) bool { return sameF(x.X, y.X) && sameF(x.Y, y.Y) }
	eqLine := func(x, y []refjson.Pos) bool {
		if len(x) != len(y) {
			return false
		}
		for i := range x {
			if !eqPos(x[i], y[i]) {
				return false
			}
		}
		return true
	}
	if !eqPos(a.Pt, b.Pt) || !eqLine(a.Line, b.Line) || len(a.Rings) != len(b.Rings) || len(a.Children) != len(b.Children) {
		return path + ": coordinates or structure differ"
	}
	for i := range a.Rings {
		if !eqLine(a.Rings[i], b.Rings[i]) {
			return fmt.Sprintf("%s ring %d differs", path, i)
		}
	}
	if a.Circle && !sameF(a.Radius, b.Radius) {
		return fmt.Sprintf("%s: circle radius %v vs %v", path, a.Radius, b.Radius)
	}
	for i := range a.Children {
		if m := sameRefXY(fmt.Sprintf("%s[%d]", path, i), a.Children[i], b.Children[i]); m != "" {
			return m
		}
	}
	return ""
}
