package harness

// C06 — Parse -> JSON -> Parse is a lossless fixpoint (DESIGN.md §4 C06).

import (
	"encoding/json"
	"fmt"
	"math"
	"reflect"
	"strconv"
	"strings"
	"testing"

	"github.com/tidwall/geojson"
	"github.com/tidwall/geojson/geometry"
	"pgregory.net/rapid"
	"verifharness/fw"
	"verifharness/gj"
	"verifharness/jdoc"
	"verifharness/kf"
	"verifharness/refjson"
)

type optsModel struct {
	IndexChildren     int  `json:"index_children"`
	IndexGeometry     int  `json:"index_geometry"`
	IndexGeometryKind int  `json:"index_geometry_kind"`
	RequireValid      bool `json:"require_valid"`
	AllowSimplePoints bool `json:"allow_simple_points"`
	DisableCircleType bool `json:"disable_circle_type"`
	AllowRects        bool `json:"allow_rects"`
}

func (o optsModel) lib() *geojson.ParseOptions {
	return &geojson.ParseOptions{IndexChildren: o.IndexChildren, IndexGeometry: o.IndexGeometry,
		IndexGeometryKind: geometry.IndexKind(o.IndexGeometryKind), RequireValid: o.RequireValid,
		AllowSimplePoints: o.AllowSimplePoints, DisableCircleType: o.DisableCircleType, AllowRects: o.AllowRects}
}

var defaultOptsModel = optsModel{IndexChildren: 64, IndexGeometry: 64, IndexGeometryKind: 2}

func genOpts(t *rapid.T) optsModel {
	if rapid.IntRange(0, 3).Draw(t, "defopts") == 0 {
		return defaultOptsModel
	}
	return optsModel{
		IndexChildren:     rapid.SampledFrom([]int{0, 1, 2, 3, 64}).Draw(t, "ichildren"),
		IndexGeometry:     rapid.SampledFrom([]int{0, 1, 4, 5, 64}).Draw(t, "igeom"),
		IndexGeometryKind: rapid.IntRange(0, 2).Draw(t, "ikind"),
		RequireValid:      rapid.IntRange(0, 4).Draw(t, "reqvalid") == 0,
		AllowSimplePoints: rapid.Bool().Draw(t, "simple"),
		DisableCircleType: rapid.IntRange(0, 4).Draw(t, "nocircle") == 0,
		AllowRects:        rapid.Bool().Draw(t, "rects"),
	}
}

type c06Case struct {
	Text string    `json:"text"`
	Opts optsModel `json:"opts"`
}

func numLitEq(a, b string) bool {
	if a == b {
		return true
	}
	x, e1 := strconv.ParseFloat(a, 64)
	y, e2 := strconv.ParseFloat(b, 64)
	return e1 == nil && e2 == nil && math.Float64bits(x) == math.Float64bits(y)
}

func hasNaNOrBig(ref *refjson.Ref) bool {
	bad := func(p refjson.Pos) bool {
		return math.IsNaN(p.X) || math.IsNaN(p.Y) || math.Abs(p.X) > 1e15 || math.Abs(p.Y) > 1e15
	}
	if ref.Type == "Point" && bad(ref.Pt) {
		return true
	}
	for _, p := range ref.Line {
		if bad(p) {
			return true
		}
	}
	for _, r := range ref.Rings {
		for _, p := range r {
			if bad(p) {
				return true
			}
		}
	}
	for _, c := range ref.Children {
		if hasNaNOrBig(c) {
			return true
		}
	}
	return false
}

var c06Probes = func() []geojson.Object {
	var out []geojson.Object
	for _, s := range []string{
		`{"type":"Point","coordinates":[0,0]}`, `{"type":"Point","coordinates":[2,3]}`, `{"type":"Point","coordinates":[5,5]}`,
		`{"type":"Polygon","coordinates":[[[-1,-1],[6,-1],[6,6],[-1,6],[-1,-1]]]}`,
		`{"type":"Polygon","coordinates":[[[0,0],[12,0],[12,12],[0,12],[0,0]],[[2,2],[4,2],[4,4],[2,4],[2,2]]]}`,
		`{"type":"LineString","coordinates":[[-3,-3],[12,12]]}`, `{"type":"LineString","coordinates":[[0,5],[5,5],[5,0]]}`,
		`{"type":"MultiPoint","coordinates":[[1,1],[3,3],[20,20]]}`,
		`{"type":"Polygon","coordinates":[[[-200,-100],[200,-100],[200,100],[-200,100],[-200,-100]]]}`,
		// collections with an empty member, nested and wrapped: "every child" rules and box shortcuts disagree on these
		`{"type":"GeometryCollection","geometries":[{"type":"Point","coordinates":[2,2]},{"type":"MultiPoint","coordinates":[]}]}`,
		`{"type":"Feature","geometry":{"type":"GeometryCollection","geometries":[{"type":"LineString","coordinates":[[1,1],[2,2]]},{"type":"GeometryCollection","geometries":[]}]},"properties":{}}`,
		`{"type":"MultiPolygon","coordinates":[[[[1,1],[2,1],[2,2],[1,2],[1,1]]],[[[3,3],[4,3],[4,4],[3,4],[3,3]]]]}`,
		`{"type":"GeometryCollection","geometries":[]}`,
	} {
		o, err := geojson.Parse(s, nil)
		if err != nil {
			panic(err)
		}
		out = append(out, o)
	}
	out = append(out, geojson.NewRect(geometry.Rect{Min: geometry.Point{X: 1, Y: 1}, Max: geometry.Point{X: 4, Y: 4}}))
	return out
}()

// sameBehaviour compares the observable geometry answers of two objects.
func sameBehaviour(a, b geojson.Object, predicates bool) string {
	if a.Rect() != b.Rect() {
		ra, rb := a.Rect(), b.Rect()
		if !(sameF(ra.Min.X, rb.Min.X) && sameF(ra.Min.Y, rb.Min.Y) && sameF(ra.Max.X, rb.Max.X) && sameF(ra.Max.Y, rb.Max.Y)) {
			return fmt.Sprintf("Rect %v vs %v", ra, rb)
		}
	}
	if a.Empty() != b.Empty() {
		return fmt.Sprintf("Empty %v vs %v", a.Empty(), b.Empty())
	}
	if a.Valid() != b.Valid() {
		return fmt.Sprintf("Valid %v vs %v", a.Valid(), b.Valid())
	}
	if a.NumPoints() != b.NumPoints() {
		return fmt.Sprintf("NumPoints %d vs %d", a.NumPoints(), b.NumPoints())
	}
	if !predicates {
		return ""
	}
	for i, p := range c06Probes {
		if x, y := a.Contains(p), b.Contains(p); x != y {
			return fmt.Sprintf("Contains(probe %d) %v vs %v", i, x, y)
		}
		if x, y := a.Within(p), b.Within(p); x != y {
			return fmt.Sprintf("Within(probe %d) %v vs %v", i, x, y)
		}
		if x, y := a.Intersects(p), b.Intersects(p); x != y {
			return fmt.Sprintf("Intersects(probe %d) %v vs %v", i, x, y)
		}
		if x, y := p.Intersects(a), p.Intersects(b); x != y {
			return fmt.Sprintf("probe %d .Intersects %v vs %v", i, x, y)
		}
		if x, y := p.Contains(a), p.Contains(b); x != y {
			return fmt.Sprintf("probe %d .Contains %v vs %v", i, x, y)
		}
	}
	return ""
}

// expectedExtras: z/m values of the declared dimensionality for every position of a unit.
func unitDims(first refjson.Pos) int {
	n := first.N
	if n > 4 {
		n = 4
	}
	return n - 2
}

func cmpExtras(path string, in, out []refjson.Pos, dims int) string {
	for i := range in {
		if i >= len(out) {
			return path + ": position missing"
		}
		if len(out[i].Extra) != dims {
			return fmt.Sprintf("%s position %d: %d extra ordinates written, declared dimensionality has %d", path, i, len(out[i].Extra), dims)
		}
		for k := 0; k < dims; k++ {
			want := 0.0
			if k < len(in[i].Extra) {
				want = in[i].Extra[k]
			}
			if !sameF(out[i].Extra[k], want) {
				return fmt.Sprintf("%s position %d ordinate %d: %v written, document has %v", path, i, k+2, out[i].Extra[k], want)
			}
		}
	}
	return ""
}

// cmpInfo compares z/m values and foreign members along the two reference trees.
// It returns (message, circleLoss): circleLoss is set when the only place a
// difference was found is a Circle feature (known finding KF-CIRCLE-MEMBERS).
func cmpInfo(path string, in, out *refjson.Ref) (string, bool) {
	if in.Circle {
		// C13 defines the canonical form Feature{Point[x,y], properties{type,radius,radius_units:"m"}}:
		// rewriting those three members (km -> m, default units) is not a loss.  Anything
		// else the input carried is: other members of the Feature or of properties, members
		// or z/m of the centre Point (known finding KF-CIRCLE-MEMBERS).
		var lost []string
		for _, m := range in.Obj.Obj {
			if m.Key != "type" && m.Key != "geometry" && m.Key != "properties" {
				lost = append(lost, "member "+strconv.Quote(m.Key))
			}
		}
		if p := in.Obj.Get("properties"); p != nil {
			for _, m := range p.Obj {
				if m.Key != "type" && m.Key != "radius" && m.Key != "radius_units" {
					lost = append(lost, "properties."+m.Key)
				}
			}
		}
		if g := in.Children[0]; g.Pt.N > 2 || len(g.Foreign()) > 0 {
			lost = append(lost, "z/m or members of the centre point")
		}
		canon := out.Obj != nil && len(out.Obj.Obj) == 3 && out.Children[0].Pt.N == 2 && len(out.Children[0].Foreign()) == 0
		if canon {
			p := out.Obj.Get("properties")
			canon = p != nil && len(p.Obj) == 3 && p.Get("radius_units") != nil && p.Get("radius_units").Str == "m"
		}
		if !canon {
			return path + ": Circle output is not in the canonical Feature/Point/properties{type,radius,radius_units:m} form", false
		}
		if len(lost) > 0 {
			return path + ": Circle feature dropped " + strings.Join(lost, ", "), true
		}
		return "", false
	}
	switch in.Type {
	case "Point":
		if m := cmpExtras(path, []refjson.Pos{in.Pt}, []refjson.Pos{out.Pt}, unitDims(in.Pt)); m != "" {
			return m, false
		}
	case "LineString":
		if m := cmpExtras(path, in.Line, out.Line, unitDims(in.Line[0])); m != "" {
			return m, false
		}
	case "Polygon":
		d := unitDims(in.Rings[0][0])
		for i := range in.Rings {
			if m := cmpExtras(fmt.Sprintf("%s.ring%d", path, i), in.Rings[i], out.Rings[i], d); m != "" {
				return m, false
			}
		}
	}
	if in.Obj != nil && out.Obj != nil {
		if m := cmpForeign(path, in, out); m != "" {
			return m, false
		}
	}
	for i := range in.Children {
		if m, cl := cmpInfo(fmt.Sprintf("%s[%d]", path, i), in.Children[i], out.Children[i]); m != "" {
			return m, cl
		}
	}
	return "", false
}

func cmpForeign(path string, in, out *refjson.Ref) string {
	want := in.Foreign()
	if in.Type == "Feature" && in.Obj.Get("properties") == nil {
		want = append(want, jdoc.Member{Key: "properties", Val: &jdoc.Value{Kind: jdoc.Object}})
	}
	got := out.Foreign()
	if len(got) != len(want) {
		return fmt.Sprintf("%s: %d foreign members written, document has %d (%s vs %s)", path, len(got), len(want), keys(got), keys(want))
	}
	for i := range want {
		if got[i].Key != want[i].Key {
			return fmt.Sprintf("%s: foreign member %d is %q, document has %q", path, i, got[i].Key, want[i].Key)
		}
		if !jdoc.Equal(got[i].Val, want[i].Val, numLitEq) {
			return fmt.Sprintf("%s: value of foreign member %q changed", path, want[i].Key)
		}
	}
	return ""
}

func keys(ms []jdoc.Member) string {
	var k []string
	for _, m := range ms {
		k = append(k, m.Key)
	}
	return "[" + strings.Join(k, ",") + "]"
}

func c06Check(c c06Case) fw.Outcome {
	opts := c.Opts.lib()
	v, ref, why := refjson.Classify(c.Text)
	if v == refjson.Unspecified && strings.Contains(why, "overflow") {
		return fw.Outcome{Label: "non-finite number", Skip: true}
	}
	obj, err := geojson.Parse(c.Text, opts)
	if err != nil {
		return fw.Outcome{Label: "not accepted by Parse", Skip: true}
	}
	out := obj.JSON()
	label := "fixpoint-only"
	if !json.Valid([]byte(out)) {
		return fw.Failf(label, "JSON() output is not valid JSON: %q; text %q", out, c.Text)
	}
	if again := obj.JSON(); again != out {
		return fw.Failf(label, "JSON() called twice returns %q, then %q; text %q", out, again, c.Text)
	}
	if cl, ok := obj.(geojson.Collection); ok {
		// a child serialised on its own, after its parent was: still one valid JSON value that parses
		for i, ch := range cl.Children() {
			cj := ch.JSON()
			if !json.Valid([]byte(cj)) {
				return fw.Failf(label, "child %d serialised after its parent gives %q, not valid JSON; text %q", i, cj, c.Text)
			}
			_, isGC := obj.(*geojson.GeometryCollection)
			_, isFC := obj.(*geojson.FeatureCollection)
			if (isGC || isFC) && !strings.Contains(out, cj) {
				return fw.Failf(label, "child %d serialised after its parent gives %q, which is not part of the parent's output %q", i, cj, out)
			}
		}
	}
	obj2, err := geojson.Parse(out, opts)
	if err != nil {
		return fw.Failf(label, "Parse rejects (%v) the JSON() output %q under the same options; text %q opts %+v", err, out, c.Text, c.Opts)
	}
	if reflect.TypeOf(obj) != reflect.TypeOf(obj2) {
		return fw.Failf(label, "re-parsed object is a %T, the original a %T; output %q; text %q", obj2, obj, out, c.Text)
	}
	if out2 := obj2.JSON(); out2 != out {
		return fw.Failf(label, "not a fixpoint after one step: %q then %q; text %q", out, out2, c.Text)
	}
	pred := ref != nil && !hasNaNOrBig(ref)
	if m := sameBehaviour(obj, obj2, pred); m != "" {
		return fw.Failf(label, "re-parsed object answers differently: %s; output %q; text %q", m, out, c.Text)
	}
	if v != refjson.Accept {
		return fw.OK(label+"/"+v.String(), false)
	}
	// information comparison against the standard decoder
	v2, ref2, why2 := refjson.Classify(out)
	if v2 == refjson.Reject {
		return fw.Failf(label, "output %q is not an acceptable document (%s); text %q", out, why2, c.Text)
	}
	// whether a Feature became a Circle is C07/C08/C13's business; here the
	// reference trees follow what the objects are
	markCircles(ref, obj)
	markCircles(ref2, obj2)
	label = "information/" + ref.Type
	nt := false
	feats := []string{}
	if strings.Contains(c.Text, "\\u0074") || ref.Obj.Count("type") > 1 {
		feats = append(feats, "dup-or-escaped-key")
		nt = true
	}
	if len(ref.Foreign()) > 0 {
		feats = append(feats, "foreign")
		nt = true
	}
	if len(ref.Children) > 0 {
		nt = true
	}
	if strings.Contains(structuralLabel(ref), "nesting:2") || strings.Contains(structuralLabel(ref), "nesting:3") {
		feats = append(feats, "nested")
	}
	if m := sameRefXY("$", ref, ref2); m != "" {
		return fw.Failf(label, "type / nesting / x,y differ between document and output: %s; output %q; text %q", m, out, c.Text)
	}
	if m, circleLoss := cmpInfo("$", ref, ref2); m != "" {
		if circleLoss && kf.Enabled("C06", "KF-CIRCLE-MEMBERS") {
			return fw.Outcome{Label: label, Known: "KF-CIRCLE-MEMBERS", Fail: "known"}
		}
		return fw.Failf(label, "information lost or invented: %s; output %q; text %q opts %+v", m, out, c.Text, c.Opts)
	}
	return fw.OK(label+"/"+strings.Join(feats, "+"), nt)
}

func c06Gen(t *rapid.T) c06Case {
	return c06Case{Text: gj.Doc(t, gj.Opts{MaxDepth: 3, Noise: true, Lattice: rapid.Bool().Draw(t, "lattice")}), Opts: genOpts(t)}
}

func c06Subs() []fw.Sub {
	return []fw.Sub{fw.Prop[c06Case]{
		Name: "roundtrip",
		Checks: func(tier string) int {
			if tier == "thorough" {
				return 400000
			}
			return 25000
		},
		Gen: c06Gen, Check: c06Check,
	}}
}

func TestC06(t *testing.T) { fw.Main(t, "C06", c06Subs(), nil) }

func markCircles(ref *refjson.Ref, obj geojson.Object) {
	_, isCircle := obj.(*geojson.Circle)
	ref.Circle = isCircle
	switch o := obj.(type) {
	case *geojson.Feature:
		if len(ref.Children) == 1 {
			markCircles(ref.Children[0], o.Base())
		}
	case geojson.Collection:
		ch := o.Children()
		for i := range ref.Children {
			if i < len(ch) {
				markCircles(ref.Children[i], ch[i])
			}
		}
	}
}
