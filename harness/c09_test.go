package harness

// C09 — object-level predicates form a consistent algebra across all twelve kinds (DESIGN.md §4 C09).

import (
	"fmt"
	"math"
	"strings"
	"testing"

	"github.com/tidwall/geojson"
	"github.com/tidwall/geojson/geometry"
	"pgregory.net/rapid"
	"verifharness/adapt"
	"verifharness/exact"
	"verifharness/fw"
	"verifharness/kf"
	"verifharness/sphere"
)

var c09Kinds = []string{"Point", "SimplePoint", "LineString", "Polygon", "Rect", "Circle", "MultiPoint", "MultiLineString", "MultiPolygon", "GeometryCollection", "Feature", "FeatureCollection"}

type c09Obj struct {
	Kind     string        `json:"kind"`
	Shape    *exact.Shape  `json:"shape,omitempty"`  // leaf geometry (valid shape on the lattice)
	Shapes   []exact.Shape `json:"shapes,omitempty"` // Multi* members
	Children []c09Obj      `json:"children,omitempty"`
	Radius   float64       `json:"radius,omitempty"`
}

type c09Case struct {
	A c09Obj `json:"a"`
	B c09Obj `json:"b"`
	// Reparse: operand A / B is rendered with JSON() and parsed again with child and geometry indexes forced
	ReparseA bool `json:"reparse_a,omitempty"`
	ReparseB bool `json:"reparse_b,omitempty"`
}

var c09IndexedOpts = &geojson.ParseOptions{IndexChildren: 1, IndexGeometry: 1, IndexGeometryKind: geometry.RTree}

func c09Reparse(o geojson.Object) geojson.Object {
	if p, err := geojson.Parse(o.JSON(), c09IndexedOpts); err == nil {
		return p
	}
	return o
}

// directCirclePoint: a Circle as direct operand against a point-like object that is direct or wrapped in one
// Feature.  There the library uses the great-circle test, so the 64-gon sliver explains nothing.
func directCirclePoint(x, y *c09Obj) bool {
	if x.Kind != "Circle" {
		return false
	}
	if y.Kind == "Point" || y.Kind == "SimplePoint" {
		return true
	}
	return y.Kind == "Feature" && (y.Children[0].Kind == "Point" || y.Children[0].Kind == "SimplePoint")
}

func (o *c09Obj) build() geojson.Object {
	switch o.Kind {
	case "Point":
		return adapt.Obj(o.Shape, adapt.Enc{}, 0)
	case "SimplePoint":
		return adapt.Obj(o.Shape, adapt.Enc{}, 1)
	case "LineString", "Polygon", "Rect":
		return adapt.Obj(o.Shape, adapt.Enc{}, 0)
	case "Circle":
		return geojson.NewCircle(adapt.Pt(o.Shape.Pt, 0), o.Radius, 64)
	case "MultiPoint":
		var pts []geometry.Point
		for _, s := range o.Shapes {
			pts = append(pts, adapt.Pt(s.Pt, 0))
		}
		return geojson.NewMultiPoint(pts)
	case "MultiLineString":
		var ls []*geometry.Line
		for i := range o.Shapes {
			ls = append(ls, adapt.Geom(&o.Shapes[i], adapt.Enc{}).(*geometry.Line))
		}
		return geojson.NewMultiLineString(ls)
	case "MultiPolygon":
		var ps []*geometry.Poly
		for i := range o.Shapes {
			ps = append(ps, adapt.Geom(&o.Shapes[i], adapt.Enc{}).(*geometry.Poly))
		}
		return geojson.NewMultiPolygon(ps)
	case "GeometryCollection", "FeatureCollection":
		var ch []geojson.Object
		for i := range o.Children {
			ch = append(ch, o.Children[i].build())
		}
		if o.Kind == "GeometryCollection" {
			return geojson.NewGeometryCollection(ch)
		}
		return geojson.NewFeatureCollection(ch)
	case "Feature":
		return geojson.NewFeature(o.Children[0].build(), "")
	}
	panic("c09: unknown kind " + o.Kind)
}

func (o *c09Obj) hasCircle() bool {
	if o.Kind == "Circle" {
		return true
	}
	for i := range o.Children {
		if o.Children[i].hasCircle() {
			return true
		}
	}
	return false
}

// pointLikes returns the lattice points of point-like parts (for the Circle tolerance band).
func (o *c09Obj) pointLikes(out []exact.P) []exact.P {
	switch o.Kind {
	case "Point", "SimplePoint":
		out = append(out, o.Shape.Pt)
	case "MultiPoint":
		for _, s := range o.Shapes {
			out = append(out, s.Pt)
		}
	}
	for i := range o.Children {
		out = o.Children[i].pointLikes(out)
	}
	return out
}

func (o *c09Obj) circles(out []*c09Obj) []*c09Obj {
	if o.Kind == "Circle" {
		out = append(out, o)
	}
	for i := range o.Children {
		out = o.Children[i].circles(out)
	}
	return out
}

// nearRim: some point-like part of x is within the rim band of some circle of y, where the
// haversine test and the 64-gon approximation (or rounding) may disagree.
func nearRim(x, y *c09Obj) bool {
	for _, c := range y.circles(nil) {
		for _, p := range x.pointLikes(nil) {
			d := sphere.Distance(float64(c.Shape.Pt.Y), float64(c.Shape.Pt.X), float64(p.Y), float64(p.X))
			if math.Abs(d-c.Radius) <= math.Max(1e-3, 1e-8*c.Radius) {
				return true
			}
		}
	}
	return false
}

// circleSliver is the defect model of KF-CIRCLE-APPROX (F15 and its relatives): a Circle answers
// point-like objects with the haversine test only when it is the direct operand; whenever it is
// reached through Spatial() / Rect() (inside a collection or a Feature built by the constructor,
// through a child search by rectangle) it answers through its planar 64-gon (circle.go
// makeCircleObject).  True iff some point-like part of x lies where the two disagree: inside one
// of y's circles by the spherical model and outside that circle's polygon, or the reverse.
func circleSliver(x, y *c09Obj) bool {
	for _, c := range y.circles(nil) {
		circ := geojson.NewCircle(adapt.Pt(c.Shape.Pt, 0), c.Radius, 64)
		poly := circ.Polygon()
		for _, p := range x.pointLikes(nil) {
			d := sphere.Distance(float64(c.Shape.Pt.Y), float64(c.Shape.Pt.X), float64(p.Y), float64(p.X))
			if (d <= c.Radius) != poly.Contains(geojson.NewPoint(adapt.Pt(p, 0))) {
				return true
			}
		}
	}
	return false
}

func rectCovers(a, b geometry.Rect) bool {
	return a.Min.X <= b.Min.X && a.Min.Y <= b.Min.Y && a.Max.X >= b.Max.X && a.Max.Y >= b.Max.Y
}

// alternatives returns objects that must answer exactly like o: Feature wrapper, Rect as
// five-point Polygon, SimplePoint as Point.
func (o *c09Obj) alternatives(obj geojson.Object) []struct {
	name string
	obj  geojson.Object
} {
	type alt = struct {
		name string
		obj  geojson.Object
	}
	out := []alt{{"Feature{x}", geojson.NewFeature(obj, "")}, {"Feature{Feature{x}}", geojson.NewFeature(geojson.NewFeature(obj, ""), "")}}
	switch x := obj.(type) {
	case *geojson.Rect:
		r := x.Base()
		pts := []geometry.Point{r.Min, {X: r.Max.X, Y: r.Min.Y}, r.Max, {X: r.Min.X, Y: r.Max.Y}, r.Min}
		out = append(out, alt{"five-point Polygon of the Rect", geojson.NewPolygon(geometry.NewPoly(pts, nil, nil))})
	case *geojson.SimplePoint:
		out = append(out, alt{"Point of the SimplePoint", geojson.NewPoint(x.Base())})
	case *geojson.Point:
		out = append(out, alt{"SimplePoint of the Point", geojson.NewSimplePoint(x.Base())})
	}
	return out
}

func leafGeom(o geojson.Object) geometry.Geometry {
	switch x := o.(type) {
	case *geojson.Point:
		return x.Base()
	case *geojson.SimplePoint:
		return x.Base()
	case *geojson.Rect:
		return x.Base()
	case *geojson.LineString:
		return x.Base()
	case *geojson.Polygon:
		return x.Base()
	}
	return nil
}

func c09Check(c c09Case) fw.Outcome {
	a, b := c.A.build(), c.B.build()
	if c.ReparseA {
		a = c09Reparse(a)
	}
	if c.ReparseB {
		b = c09Reparse(b)
	}
	label := c.A.Kind + "x" + c.B.Kind
	withCircle := c.A.hasCircle() || c.B.hasCircle()
	if withCircle && (nearRim(&c.A, &c.B) || nearRim(&c.B, &c.A)) {
		return fw.Outcome{Label: label + "/point on a circle's rim", Skip: true}
	}
	known := func() string {
		if directCirclePoint(&c.A, &c.B) || directCirclePoint(&c.B, &c.A) {
			return ""
		}
		if withCircle && kf.Enabled("C09", "KF-CIRCLE-APPROX") && (circleSliver(&c.A, &c.B) || circleSliver(&c.B, &c.A)) {
			return "KF-CIRCLE-APPROX"
		}
		return ""
	}
	fail := func(format string, args ...any) fw.Outcome {
		if id := known(); id != "" {
			return fw.Outcome{Label: label, Known: id, Fail: "known"}
		}
		return fw.Failf(label, format+"; A=%s B=%s", append(args, a.JSON(), b.JSON())...)
	}
	cab, cba := a.Contains(b), b.Contains(a)
	iab, iba := a.Intersects(b), b.Intersects(a)
	if w := a.Within(b); w != cba {
		return fail("A.Within(B) = %v but B.Contains(A) = %v", w, cba)
	}
	if w := b.Within(a); w != cab {
		return fail("B.Within(A) = %v but A.Contains(B) = %v", w, cab)
	}
	if iab != iba {
		return fail("A.Intersects(B) = %v but B.Intersects(A) = %v", iab, iba)
	}
	ra, rb := a.Rect(), b.Rect()
	for _, d := range []struct {
		x, y     geojson.Object
		cxy, ixy bool
		rx, ry   geometry.Rect
		nx, ny   string
	}{{a, b, cab, iab, ra, rb, "A", "B"}, {b, a, cba, iba, rb, ra, "B", "A"}} {
		if d.cxy && !d.y.Empty() {
			if !d.ixy {
				return fail("%s contains the non-empty %s but does not intersect it", d.nx, d.ny)
			}
			if !rectCovers(d.rx, d.ry) {
				return fail("%s contains %s but %s.Rect() %v does not cover %s.Rect() %v", d.nx, d.ny, d.nx, d.rx, d.ny, d.ry)
			}
		}
		if d.ixy && !d.rx.IntersectsRect(d.ry) {
			return fail("%s intersects %s but their rectangles %v %v do not", d.nx, d.ny, d.rx, d.ry)
		}
	}
	// self-containment of a non-empty valid object
	// (a Feature that wraps a collection is one part where its collection has many, so the two
	// readings of "part" in C10 disagree on whether it contains itself: left unasserted, DESIGN.md §7)
	if !a.Empty() && a.Valid() && !hasFeatureOverCollection(mkNode(a)) {
		if !a.Contains(a) || !a.Intersects(a) {
			return fail("non-empty valid A: Contains(A) = %v, Intersects(A) = %v", a.Contains(a), a.Intersects(a))
		}
	}
	// transparency of wrappers and alternative representations
	for _, side := range []struct {
		o     *c09Obj
		obj   geojson.Object
		other geojson.Object
		name  string
	}{{&c.A, a, b, "A"}, {&c.B, b, a, "B"}} {
		for _, alt := range side.o.alternatives(side.obj) {
			for _, pr := range []struct {
				name      string
				orig, got bool
			}{
				{"Contains(other)", side.obj.Contains(side.other), alt.obj.Contains(side.other)},
				{"Within(other)", side.obj.Within(side.other), alt.obj.Within(side.other)},
				{"Intersects(other)", side.obj.Intersects(side.other), alt.obj.Intersects(side.other)},
				{"other.Contains", side.other.Contains(side.obj), side.other.Contains(alt.obj)},
				{"other.Intersects", side.other.Intersects(side.obj), side.other.Intersects(alt.obj)},
			} {
				if pr.orig != pr.got {
					// a Feature is one part where its collection has many: the two readings of "part" (C10) may differ
					if strings.HasPrefix(alt.name, "Feature{") && isCollKind(side.o.Kind) {
						continue
					}
					return fail("%s %s = %v, with %s in its place %v", side.name, pr.name, pr.orig, alt.name, pr.got)
				}
			}
		}
	}
	// leaf objects answer as the geometry-level predicates on their base geometry
	if ga, gb := leafGeom(a), leafGeom(b); ga != nil && gb != nil {
		if g := adapt.Call("contains", ga, gb); g != cab {
			return fail("object A.Contains(B) = %v, geometry-level %v", cab, g)
		}
		if g := adapt.Call("intersects", ga, gb); g != iab {
			return fail("object A.Intersects(B) = %v, geometry-level %v", iab, g)
		}
	}
	nt := ra.IntersectsRect(rb) && (cab || cba || iab)
	return fw.OK(label, nt)
}

func isCollKind(k string) bool {
	switch k {
	case "MultiPoint", "MultiLineString", "MultiPolygon", "GeometryCollection", "FeatureCollection":
		return true
	}
	return false
}

func genC09Obj(t *rapid.T, kind string, depth int, rels []*exact.Shape) c09Obj {
	const R = 6
	shape := func(k exact.Kind) *exact.Shape {
		var s exact.Shape
		if len(rels) > 0 && rapid.IntRange(0, 2).Draw(t, "related") > 0 {
			// each member relates to one of the other operand's leaf shapes, so different children of a
			// collection can hold different parts of the other object
			rel := rels[rapid.IntRange(0, len(rels)-1).Draw(t, "relidx")]
			s = genRelatedShape(t, rel, k, R, true)
		} else {
			s = genShapeOfKind(t, k, R, 6, true)
		}
		return &s
	}
	o := c09Obj{Kind: kind}
	switch kind {
	case "Point", "SimplePoint":
		o.Shape = shape(exact.KPoint)
	case "LineString":
		o.Shape = shape(exact.KLine)
	case "Polygon":
		o.Shape = shape(exact.KPoly)
	case "Rect":
		o.Shape = shape(exact.KRect)
	case "Circle":
		o.Shape = shape(exact.KPoint)
		o.Radius = math.Pow(10, rapid.Float64Range(1, math.Log10(5e5)).Draw(t, "radius"))
		if rapid.Bool().Draw(t, "rimdirected") {
			// a radius that puts some lattice point just inside or just outside the rim
			q := genLatP(t, R, "rimpt")
			if d := sphere.Distance(float64(o.Shape.Pt.Y), float64(o.Shape.Pt.X), float64(q.Y), float64(q.X)); d > 0 {
				o.Radius = d * rapid.SampledFrom([]float64{1.0005, 1.002, 1.01, 1.03, 0.9995, 0.99, 0.97}).Draw(t, "rimf")
			}
		}
		if rapid.IntRange(0, 11).Draw(t, "rzero") == 0 {
			// the degenerate circle: non-empty and valid, so it contains and intersects itself
			o.Radius = 0
		}
	case "MultiPoint", "MultiLineString", "MultiPolygon":
		k := map[string]exact.Kind{"MultiPoint": exact.KPoint, "MultiLineString": exact.KLine, "MultiPolygon": exact.KPoly}[kind]
		for i := rapid.IntRange(0, 3).Draw(t, "nmulti"); i > 0; i-- {
			o.Shapes = append(o.Shapes, *shape(k))
		}
	case "GeometryCollection", "FeatureCollection":
		for i := rapid.IntRange(0, 3).Draw(t, "ncoll"); i > 0; i-- {
			ck := rapid.SampledFrom(c09Kinds).Draw(t, "childkind")
			if depth <= 0 && (isCollKind(ck) || ck == "Feature") {
				ck = "Polygon"
			}
			o.Children = append(o.Children, genC09Obj(t, ck, depth-1, rels))
		}
	case "Feature":
		ck := rapid.SampledFrom(c09Kinds).Draw(t, "featkind")
		if depth <= 0 && (isCollKind(ck) || ck == "Feature") {
			ck = "LineString"
		}
		o.Children = []c09Obj{genC09Obj(t, ck, depth-1, rels)}
	}
	return o
}

// leafShapes collects the leaf shapes inside an object (used to relate B to A).
func (o *c09Obj) leafShapes(out []*exact.Shape) []*exact.Shape {
	if o.Shape != nil {
		out = append(out, o.Shape)
	}
	for i := range o.Shapes {
		out = append(out, &o.Shapes[i])
	}
	for i := range o.Children {
		out = o.Children[i].leafShapes(out)
	}
	return out
}

func c09Gen(t *rapid.T) c09Case {
	cell := rapid.IntRange(0, 143).Draw(t, "cell")
	a := genC09Obj(t, c09Kinds[cell/12], 2, nil)
	b := genC09Obj(t, c09Kinds[cell%12], 2, a.leafShapes(nil))
	return c09Case{A: a, B: b, ReparseA: rapid.IntRange(0, 2).Draw(t, "reparsea") == 0, ReparseB: rapid.IntRange(0, 2).Draw(t, "reparseb") == 0}
}

func c09Subs() []fw.Sub {
	return []fw.Sub{fw.Prop[c09Case]{
		Name: "algebra",
		Checks: func(tier string) int {
			if tier == "thorough" {
				return 400000
			}
			return 25000
		},
		Gen: c09Gen, Check: c09Check,
	}}
}

func TestC09(t *testing.T) { fw.Main(t, "C09", c09Subs(), nil) }

var _ = fmt.Sprint
