package harness

// C07 — Parse decodes exactly what the document says, or rejects it (DESIGN.md §4 C07).

import (
	"fmt"
	"strconv"
	"strings"
	"testing"

	"github.com/tidwall/geojson"
	"github.com/tidwall/geojson/geometry"
	"pgregory.net/rapid"
	"verifharness/fw"
	"verifharness/gj"
	"verifharness/kf"
	"verifharness/refjson"
)

type docCase struct {
	Text string `json:"text"`
	// index options only (they never change meaning, C08): child / geometry thresholds and kind; 0,0,0 = defaults
	IdxChildren int `json:"idx_children,omitempty"`
	IdxGeometry int `json:"idx_geometry,omitempty"`
	IdxKind     int `json:"idx_kind,omitempty"`
	// representation options (they change the concrete Go type only, C08): bit 0 AllowSimplePoints, bit 1 AllowRects
	Repr int `json:"repr,omitempty"`
}

func (c docCase) opts() *geojson.ParseOptions {
	if c.IdxChildren == 0 && c.IdxGeometry == 0 && c.IdxKind == 0 && c.Repr == 0 {
		return nil
	}
	o := *geojson.DefaultParseOptions
	o.AllowSimplePoints = c.Repr&1 != 0
	o.AllowRects = c.Repr&2 != 0
	if c.IdxChildren > 0 {
		o.IndexChildren = c.IdxChildren
	}
	if c.IdxGeometry > 0 {
		o.IndexGeometry = c.IdxGeometry
	}
	if c.IdxKind > 0 {
		o.IndexGeometryKind = geometry.IndexKind(c.IdxKind)
	}
	return &o
}

func structuralLabel(ref *refjson.Ref) string {
	if ref == nil {
		return ""
	}
	n := 0
	var walk func(r *refjson.Ref)
	depth := 0
	var d func(r *refjson.Ref, k int)
	d = func(r *refjson.Ref, k int) {
		if k > depth {
			depth = k
		}
		for _, c := range r.Children {
			d(c, k+1)
		}
	}
	walk = func(r *refjson.Ref) {
		n += len(r.Line)
		for _, rg := range r.Rings {
			n += len(rg)
		}
		if r.Type == "Point" {
			n++
		}
		for _, c := range r.Children {
			walk(c)
		}
	}
	walk(ref)
	d(ref, 0)
	return fmt.Sprintf("%s/positions>=2:%v/nesting:%d", ref.Type, n >= 2, min(depth, 3))
}

func c07Check(c docCase) fw.Outcome {
	v, ref, why := refjson.Classify(c.Text)
	obj, err, changed := parseWatched(c.Text, c.opts())
	if changed != "" {
		return fw.Failf("options-untouched", "%s", changed)
	}
	if (obj == nil) == (err == nil) {
		return fw.Failf("totality", "Parse returned (%v, %v): exactly one of object / error expected; text %q", obj, err, c.Text)
	}
	switch v {
	case refjson.Unspecified:
		return fw.Outcome{Label: "unspecified: " + why, Skip: true}
	case refjson.Reject:
		label := "reject: " + why
		if err == nil {
			return fw.Failf(label, "Parse accepted a text with a listed defect (%s) as %s; text %q", why, obj.JSON(), c.Text)
		}
		// non-trivial: rejected by a structural rule, not by the JSON gate
		return fw.OK(label, why != "not valid JSON" && why != "not an object")
	}
	label := "accept: " + structuralLabel(ref)
	if err != nil {
		if c07MixedDimsModel(ref, err) {
			return fw.Outcome{Label: label, Known: "KF-MIXEDDIMS", Fail: "known"}
		}
		return fw.Failf(label, "Parse rejected (%v) a text that the statement lists as acceptable; text %q", err, c.Text)
	}
	if m := compareRef("$", ref, obj); m != "" {
		return fw.Failf(label, "decoded object differs from the document: %s; text %q", m, c.Text)
	}
	// cross-check through JSON()
	out := obj.JSON()
	v2, ref2, why2 := refjson.Classify(out)
	if v2 == refjson.Reject {
		return fw.Failf(label, "JSON() output %q is not an acceptable document (%s); text %q", out, why2, c.Text)
	}
	if m := sameRefXY("$", ref, ref2); m != "" {
		return fw.Failf(label, "JSON() output %q differs from the document: %s; text %q", out, m, c.Text)
	}
	nt := len(ref.Children) > 0 || len(ref.Line) >= 2 || len(ref.Rings) > 0
	return fw.OK(label, nt)
}

func c07Idx(t *rapid.T, c docCase) docCase {
	if rapid.Bool().Draw(t, "idxopts") {
		c.IdxChildren = rapid.SampledFrom([]int{0, 1, 2, 3}).Draw(t, "idxch")
		c.IdxGeometry = rapid.SampledFrom([]int{0, 1, 4, 17}).Draw(t, "idxg")
		c.IdxKind = rapid.IntRange(0, 2).Draw(t, "idxk")
		c.Repr = rapid.SampledFrom([]int{0, 0, 1, 2, 3}).Draw(t, "repr")
	}
	return c
}

func c07GenWellFormed(t *rapid.T) docCase {
	return c07Idx(t, docCase{Text: gj.Doc(t, gj.Opts{MaxDepth: 3, Noise: true, Lattice: rapid.Bool().Draw(t, "lattice")})})
}

func c07GenMutated(t *rapid.T) docCase {
	return c07Idx(t, docCase{Text: gj.Doc(t, gj.Opts{Mutations: rapid.IntRange(1, 2).Draw(t, "nmut"), MaxDepth: 3, Noise: rapid.Bool().Draw(t, "noise"), Lattice: true})})
}

func c07Subs() []fw.Sub {
	n := func(q, th int) func(string) int {
		return func(tier string) int {
			if tier == "thorough" {
				return th
			}
			return q
		}
	}
	return []fw.Sub{
		fw.Prop[docCase]{Name: "well-formed", Checks: n(15000, 300000), Gen: c07GenWellFormed, Check: c07Check},
		fw.Prop[docCase]{Name: "mutated", Checks: n(25000, 500000), Gen: c07GenMutated, Check: c07Check},
	}
}

func TestC07(t *testing.T) { fw.Main(t, "C07", c07Subs(), nil) }

// c07MixedDimsModel is the defect model of KF-MIXEDDIMS (finding F9): the library
// rejects, with "invalid coordinates", a coordinate array whose first position has
// two elements and a later one three or more (linestring.go / polygon.go: the
// dimensionality is fixed by the first position; pinned by TestIssue714).  The
// model explains a rejection only if the same document with every position cut
// to x,y is accepted and decodes to the reference tree, i.e. the extra
// ordinates are the only reason.
func c07MixedDimsModel(ref *refjson.Ref, err error) bool {
	if !kf.Enabled("C07", "KF-MIXEDDIMS") || !ref.MixedDims() || err == nil || err.Error() != "invalid coordinates" {
		return false
	}
	obj, err2 := geojson.Parse(refText(ref), nil)
	if err2 != nil {
		return false
	}
	return compareRef("$", ref, obj) == ""
}

// refText renders a reference tree as a minimal document with x,y only.
func refText(r *refjson.Ref) string {
	num := func(f float64) string {
		if f != f {
			return "null"
		}
		return strconv.FormatFloat(f, 'g', -1, 64)
	}
	pos := func(p refjson.Pos) string { return "[" + num(p.X) + "," + num(p.Y) + "]" }
	line := func(l []refjson.Pos) string {
		var parts []string
		for _, p := range l {
			parts = append(parts, pos(p))
		}
		return "[" + strings.Join(parts, ",") + "]"
	}
	rings := func(rs [][]refjson.Pos) string {
		var parts []string
		for _, l := range rs {
			parts = append(parts, line(l))
		}
		return "[" + strings.Join(parts, ",") + "]"
	}
	var children []string
	switch r.Type {
	case "Point":
		return `{"type":"Point","coordinates":` + pos(r.Pt) + `}`
	case "LineString":
		return `{"type":"LineString","coordinates":` + line(r.Line) + `}`
	case "Polygon":
		return `{"type":"Polygon","coordinates":` + rings(r.Rings) + `}`
	case "MultiPoint":
		for _, c := range r.Children {
			children = append(children, pos(c.Pt))
		}
	case "MultiLineString":
		for _, c := range r.Children {
			children = append(children, line(c.Line))
		}
	case "MultiPolygon":
		for _, c := range r.Children {
			children = append(children, rings(c.Rings))
		}
	case "Feature":
		if r.Circle {
			return `{"type":"Feature","geometry":` + refText(r.Children[0]) + `,"properties":{"type":"Circle","radius":` + num(r.Radius) + `}}`
		}
		return `{"type":"Feature","geometry":` + refText(r.Children[0]) + `}`
	default:
		for _, c := range r.Children {
			children = append(children, refText(c))
		}
		key := "geometries"
		if r.Type == "FeatureCollection" {
			key = "features"
		}
		return `{"type":"` + r.Type + `","` + key + `":[` + strings.Join(children, ",") + `]}`
	}
	return `{"type":"` + r.Type + `","coordinates":[` + strings.Join(children, ",") + `]}`
}
