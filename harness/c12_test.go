package harness

// C12 — predicates are invariant under re-encoding and rigid lattice symmetries (DESIGN.md §4 C12).

import (
	"fmt"
	"strconv"
	"strings"
	"testing"

	"github.com/tidwall/geojson"
	"github.com/tidwall/geojson/geometry"
	"pgregory.net/rapid"
	"verifharness/adapt"
	"verifharness/exact"
	"verifharness/fw"
)

type c12Case struct {
	Pair  pairCase `json:"pair"`
	T     string   `json:"transform"` // translate, move, scale, flipx, flipy, swapxy, rotate-start, reverse, closing
	DX    int64    `json:"dx,omitempty"`
	DY    int64    `json:"dy,omitempty"`
	K     int      `json:"k,omitempty"`     // power of two for scale
	Which int      `json:"which,omitempty"` // operand re-encoded: 0 = A, 1 = B
}

type answers [4]bool // A contains B, B contains A, A intersects B, B intersects A

var answerNames = [4]string{"A.Contains(B)", "B.Contains(A)", "A.Intersects(B)", "B.Intersects(A)"}

func evalAnswers(ga, gb geometry.Geometry) answers {
	return answers{adapt.Call("contains", ga, gb), adapt.Call("contains", gb, ga),
		adapt.Call("intersects", ga, gb), adapt.Call("intersects", gb, ga)}
}

func moveGeom(g geometry.Geometry, dx, dy float64) geometry.Geometry {
	switch v := g.(type) {
	case geometry.Point:
		return v.Move(dx, dy)
	case geometry.Rect:
		return v.Move(dx, dy)
	case *geometry.Line:
		return v.Move(dx, dy)
	case *geometry.Poly:
		return v.Move(dx, dy)
	}
	return g
}

func rotateRing(r []exact.P, k int) []exact.P {
	u := exact.Unclose(r)
	closed := len(u) != len(r)
	n := len(u)
	if n == 0 {
		return r
	}
	k %= n
	out := append(append([]exact.P{}, u[k:]...), u[:k]...)
	if closed {
		out = append(out, out[0])
	}
	return out
}

func reverseSeq(r []exact.P) []exact.P {
	out := make([]exact.P, len(r))
	for i, p := range r {
		out[len(r)-1-i] = p
	}
	return out
}

func toggleClosing(r []exact.P) []exact.P {
	u := exact.Unclose(r)
	if len(u) != len(r) {
		return append([]exact.P{}, u...)
	}
	return append(append([]exact.P{}, r...), r[0])
}

// reencodings returns the re-encoded variants of a shape for a transformation kind.
func reencodings(s exact.Shape, kind string) []exact.Shape {
	var out []exact.Shape
	switch kind {
	case "rotate-start":
		if s.K != exact.KPoly {
			return nil
		}
		n := len(exact.Unclose(s.Ext))
		for k := 1; k < n; k++ {
			t := s
			t.Ext = rotateRing(s.Ext, k)
			t.Holes = nil
			for _, h := range s.Holes {
				t.Holes = append(t.Holes, rotateRing(h, k))
			}
			out = append(out, t)
		}
	case "reverse":
		t := s
		switch s.K {
		case exact.KLine:
			t.Line = reverseSeq(s.Line)
		case exact.KPoly:
			t.Ext = reverseSeq(s.Ext)
			t.Holes = nil
			for _, h := range s.Holes {
				t.Holes = append(t.Holes, reverseSeq(h))
			}
		default:
			return nil
		}
		out = append(out, t)
	case "closing":
		if s.K != exact.KPoly {
			return nil
		}
		t := s
		t.Ext = toggleClosing(s.Ext)
		t.Holes = nil
		for i, h := range s.Holes {
			if i%2 == 0 {
				t.Holes = append(t.Holes, toggleClosing(h))
			} else {
				t.Holes = append(t.Holes, h)
			}
		}
		out = append(out, t)
	}
	return out
}

// shapeJSON renders a shape as a GeoJSON text (rings closed, rects as five-point rings from the min corner).
func shapeJSON(s *exact.Shape, scale int) string {
	num := func(v int64) string { return strconv.FormatFloat(adapt.F(v, scale), 'f', -1, 64) }
	pos := func(p exact.P) string { return "[" + num(p.X) + "," + num(p.Y) + "]" }
	seq := func(ps []exact.P) string {
		var parts []string
		for _, p := range ps {
			parts = append(parts, pos(p))
		}
		return "[" + strings.Join(parts, ",") + "]"
	}
	switch s.K {
	case exact.KPoint:
		return `{"type":"Point","coordinates":` + pos(s.Pt) + `}`
	case exact.KLine:
		return `{"type":"LineString","coordinates":` + seq(s.Line) + `}`
	case exact.KRect:
		return `{"type":"Polygon","coordinates":[` + seq([]exact.P{s.Min, {X: s.Max.X, Y: s.Min.Y}, s.Max, {X: s.Min.X, Y: s.Max.Y}, s.Min}) + `]}`
	}
	rings := []string{seq(closeRing(s.Ext))}
	for _, h := range s.Holes {
		rings = append(rings, seq(closeRing(h)))
	}
	return `{"type":"Polygon","coordinates":[` + strings.Join(rings, ",") + `]}`
}

var c12ParseOpts = &geojson.ParseOptions{IndexChildren: 64, IndexGeometry: 64, IndexGeometryKind: geometry.QuadTree, AllowRects: true, AllowSimplePoints: true}

// objAnswers parses both shapes with the representation options on and evaluates the four answers at object level.
func objAnswers(a, b *exact.Shape, scale int) (answers, bool) {
	if a.K == exact.KRect && (a.Min.X == a.Max.X || a.Min.Y == a.Max.Y) || b.K == exact.KRect && (b.Min.X == b.Max.X || b.Min.Y == b.Max.Y) {
		// a degenerate rect has no five-point polygon text that means the same
		return answers{}, false
	}
	oa, err1 := geojson.Parse(shapeJSON(a, scale), c12ParseOpts)
	ob, err2 := geojson.Parse(shapeJSON(b, scale), c12ParseOpts)
	if err1 != nil || err2 != nil {
		return answers{}, false
	}
	return answers{oa.Contains(ob), ob.Contains(oa), oa.Intersects(ob), ob.Intersects(oa)}, true
}

func c12Check(c c12Case) fw.Outcome {
	p := c.Pair
	base := evalAnswers(adapt.Geom(&p.A, p.EA), adapt.Geom(&p.B, p.EB))
	if ob, ok := objAnswers(&p.A, &p.B, p.EA.Scale); ok && ob != base {
		var want answers
		want[0], _ = exact.Contains(&p.A, &p.B)
		want[1], _ = exact.Contains(&p.B, &p.A)
		want[2], _ = exact.Intersects(&p.A, &p.B)
		want[3] = want[2]
		for i := range ob {
			if ob[i] != base[i] {
				wrong := pairCase{A: p.A, B: p.B, EA: p.EA, EB: p.EB}
				if i == 1 {
					wrong.A, wrong.B = p.B, p.A
				}
				if i < 2 {
					if id := c03Known(&wrong, !want[i], want[i], c12Witness(&wrong)); id != "" {
						continue
					}
				}
				return fw.Failf("parsed-vs-constructed", "%s = %v on the constructed geometries and %v on the objects parsed from their GeoJSON with AllowRects / AllowSimplePoints (exact answer %v); %s", answerNames[i], base[i], ob[i], want[i], pairString(&p))
			}
		}
	}
	label := fmt.Sprintf("%s/%s-%s", c.T, p.A.K, p.B.K)
	mixed := (base[0] || base[1] || base[2] || base[3]) && !(base[0] && base[1] && base[2] && base[3])
	nt := mixed || contactClass(&p.A, &p.B) != "no-boundary-contact"
	type variant struct {
		desc   string
		ga, gb geometry.Geometry
		A, B   exact.Shape
	}
	var vs []variant
	sc := p.EA.Scale
	switch c.T {
	case "translate":
		f := func(q exact.P) exact.P { return exact.P{X: q.X + c.DX, Y: q.Y + c.DY} }
		a, b := mapShape(p.A, f), mapShape(p.B, f)
		vs = append(vs, variant{fmt.Sprintf("both translated by (%d,%d)", c.DX, c.DY), adapt.Geom(&a, p.EA), adapt.Geom(&b, p.EB), a, b})
	case "move":
		dx, dy := adapt.F(c.DX, sc), adapt.F(c.DY, sc)
		f := func(q exact.P) exact.P { return exact.P{X: q.X + c.DX, Y: q.Y + c.DY} }
		a, b := mapShape(p.A, f), mapShape(p.B, f)
		vs = append(vs, variant{fmt.Sprintf("both moved with Move(%g,%g)", dx, dy),
			moveGeom(adapt.Geom(&p.A, p.EA), dx, dy), moveGeom(adapt.Geom(&p.B, p.EB), dx, dy), a, b})
	case "scale":
		ea, eb := p.EA, p.EB
		ea.Scale += c.K
		eb.Scale += c.K
		vs = append(vs, variant{fmt.Sprintf("both scaled by 2^%d", c.K), adapt.Geom(&p.A, ea), adapt.Geom(&p.B, eb), p.A, p.B})
	case "flipx", "flipy", "swapxy":
		var f func(q exact.P) exact.P
		switch c.T {
		case "flipx":
			f = func(q exact.P) exact.P { return exact.P{X: -q.X, Y: q.Y} }
		case "flipy":
			f = func(q exact.P) exact.P { return exact.P{X: q.X, Y: -q.Y} }
		default:
			f = func(q exact.P) exact.P { return exact.P{X: q.Y, Y: q.X} }
		}
		a, b := mapShape(p.A, f), mapShape(p.B, f)
		vs = append(vs, variant{c.T, adapt.Geom(&a, p.EA), adapt.Geom(&b, p.EB), a, b})
	case "rotate-start", "reverse", "closing":
		src := p.A
		if c.Which == 1 {
			src = p.B
		}
		for i, r := range reencodings(src, c.T) {
			v := variant{desc: fmt.Sprintf("%s of operand %d (variant %d)", c.T, c.Which, i), A: p.A, B: p.B}
			if c.Which == 1 {
				v.B = r
			} else {
				v.A = r
			}
			v.ga, v.gb = adapt.Geom(&v.A, p.EA), adapt.Geom(&v.B, p.EB)
			vs = append(vs, v)
		}
	}
	if len(vs) == 0 {
		return fw.Outcome{Label: label + "/identity", Skip: true}
	}
	for _, v := range vs {
		got := evalAnswers(v.ga, v.gb)
		// the same re-encoding through the parser with the representation options on
		if c.T != "scale" && c.T != "move" {
			if og, ok := objAnswers(&v.A, &v.B, sc); ok && og != got {
				for i := range og {
					if og[i] != got[i] {
						return fw.Failf(label, "%s = %v on the constructed geometries and %v on the parsed objects after %s; A=%v B=%v", answerNames[i], got[i], og[i], v.desc, &v.A, &v.B)
					}
				}
			}
		}
		for i := range got {
			if got[i] == base[i] {
				continue
			}
			// which side is wrong, according to the exact oracle?
			var want bool
			x, y := &p.A, &p.B
			if i%2 == 1 {
				x, y = y, x
			}
			var w *exact.Q
			if i < 2 {
				want, w = exact.Contains(x, y)
			} else {
				want, _ = exact.Intersects(x, y)
			}
			if i < 2 {
				// a difference that is only another face of a listed C03 finding
				wrongPair := pairCase{A: *x, B: *y, EA: p.EA, EB: p.EB}
				if id := c03Known(&wrongPair, !want, want, w); id != "" {
					return fw.Outcome{Label: label, Known: id, Fail: "known"}
				}
			}
			return fw.Failf(label, "%s = %v before and %v after %s (exact answer %v); %s", answerNames[i], base[i], got[i], v.desc, want, pairString(&p))
		}
	}
	return fw.OK(label, nt)
}

var c12Transforms = []string{"translate", "move", "scale", "flipx", "flipy", "swapxy", "rotate-start", "reverse", "closing"}

func c12Gen(t *rapid.T) c12Case {
	ka := exact.Kind(rapid.IntRange(0, 3).Draw(t, "ka"))
	kb := exact.Kind(rapid.IntRange(0, 3).Draw(t, "kb"))
	tr := rapid.SampledFrom(c12Transforms).Draw(t, "transform")
	which := rapid.IntRange(0, 1).Draw(t, "which")
	switch tr {
	case "rotate-start", "closing":
		if which == 0 {
			ka = exact.KPoly
		} else {
			kb = exact.KPoly
		}
	case "reverse":
		k := exact.Kind(rapid.IntRange(2, 3).Draw(t, "revkind"))
		if which == 0 {
			ka = k
		} else {
			kb = k
		}
	}
	c := c12Case{Pair: genPair(t, ka, kb, 8, false, false), T: tr, Which: which}
	// translation offsets keep every ordinate within 2^20
	a0, a1 := boxOf(&c.Pair.A)
	b0, b1 := boxOf(&c.Pair.B)
	lo := exact.P{X: min(a0.X, b0.X), Y: min(a0.Y, b0.Y)}
	hi := exact.P{X: max(a1.X, b1.X), Y: max(a1.Y, b1.Y)}
	const M = 1 << 20
	c.DX = rapid.Int64Range(-M-lo.X, M-hi.X).Draw(t, "dx")
	c.DY = rapid.Int64Range(-M-lo.Y, M-hi.Y).Draw(t, "dy")
	if rapid.Bool().Draw(t, "smalloff") {
		c.DX, c.DY = max(-M-lo.X, min(M-hi.X, c.DX%7)), max(-M-lo.Y, min(M-hi.Y, c.DY%7))
	}
	bothLines := c.Pair.A.K == exact.KLine && c.Pair.B.K == exact.KLine
	farOdds := 5
	if bothLines {
		farOdds = 1 // every second pair of lines: Line.ContainsLine has a walk of its own, with its own arithmetic
	}
	if c.Pair.EA.Scale == 0 && rapid.IntRange(0, farOdds).Draw(t, "faroff") == 0 {
		// far from the origin, still exactly representable: the predicates only ever need coordinate
		// differences, so absolute ordinates near 2^52 must not change an answer
		// (not 2^52 and beyond: there the midpoint of two lattice points is no longer a double, which is outside the
		// property's domain - "small enough that the library's float arithmetic is exact" - and the library's
		// segment-in-ring analysis, which looks at the middle of a piece between two boundary contacts, has no exact answer)
		off := []int64{1 << 30, 1 << 40, 1 << 50, (1 << 52) - (1 << 21), -(1 << 30), -(1 << 45), -((1 << 52) - (1 << 21)), 0}
		if bothLines {
			// two lines: nothing but differences of ordinates is ever needed (no midpoints), so integer lattice
			// points stay exact up to 2^53
			off = append(off, 1<<52, 3<<51, -(1 << 52))
		}
		c.DX = rapid.SampledFrom(off).Draw(t, "fardx")
		c.DY = rapid.SampledFrom(off).Draw(t, "fardy")
	}
	c.K = rapid.IntRange(-12, 12).Draw(t, "k")
	if rapid.IntRange(0, 3).Draw(t, "bigk") == 0 {
		c.K = rapid.SampledFrom([]int{-60, -40, -30, -24, -20, 20, 30, 40, 60}).Draw(t, "kfar")
	}
	// the scaled pair stays inside the range where every cross product is exact (finding KF-RANGE beyond it)
	if s := c.Pair.EA.Scale + c.K; s > 470 || s < -470 {
		c.K = -c.K
	}
	return c
}

func c12Shrink(c c12Case) []c12Case {
	var out []c12Case
	for _, p := range shrinkPair(c.Pair) {
		d := c
		d.Pair = p
		out = append(out, d)
	}
	if c.DX != 0 || c.DY != 0 {
		d := c
		d.DX, d.DY = c.DX/2, c.DY/2
		out = append(out, d)
	}
	return out
}

func c12Subs() []fw.Sub {
	return []fw.Sub{fw.Prop[c12Case]{
		Name: "invariance",
		Checks: func(tier string) int {
			if tier == "thorough" {
				return 500000
			}
			return 30000
		},
		Gen:    c12Gen,
		Check:  c12Check,
		Shrink: c12Shrink,
	}}
}

func TestC12(t *testing.T) { fw.Main(t, "C12", c12Subs(), nil) }

func c12Witness(p *pairCase) *exact.Q {
	_, w := exact.Contains(&p.A, &p.B)
	return w
}
