// Package fw is the small property-testing framework shared by all checks:
// generic runners (rapid-driven and enumerated), case classification and
// distinct counting, evidence output, replay files, known-finding accounting
// and a per-call watchdog.  See /verif/DESIGN.md §2, §3.5, §3.6.
package fw

import (
	"encoding/binary"
	"encoding/json"
	"flag"
	"fmt"
	"hash/fnv"
	"os"
	"path/filepath"
	"runtime/debug"
	"sort"
	"strconv"
	"strings"
	"sync"
	"sync/atomic"
	"testing"
	"time"

	"pgregory.net/rapid"
)

// Outcome is what a check function reports for one case.
type Outcome struct {
	Label      string // class label (histogram key)
	Nontrivial bool   // non-trivial by the property's stated rule
	Fail       string // non-empty: the property is violated on this case
	Known      string // non-empty: id of the known finding that explains the failure
	Skip       bool   // case outside the asserted domain (counted separately)
	// A case may bundle many elementary evaluations (one shape x many query
	// points): Evals is their number (0 means 1) and Keys the distinctness keys
	// of the non-trivial ones (nil means: the case's own key if Nontrivial).
	Evals       int64
	Keys        []uint64
	LabelCounts map[string]int64 // per-evaluation label histogram of a bundled case
	Infra       string           // non-empty: harness self-check failed (exit 2, never a violation)
}

// OK is a passing outcome.
func OK(label string, nontrivial bool) Outcome { return Outcome{Label: label, Nontrivial: nontrivial} }

// Failf is a failing outcome.
func Failf(label string, format string, a ...any) Outcome {
	return Outcome{Label: label, Nontrivial: true, Fail: fmt.Sprintf(format, a...)}
}

// Sub is one sub-property of a check.
type Sub interface {
	SubName() string
	Run(r *Rec)
	Replay(raw json.RawMessage) (Outcome, error)
}

// Prop is a generic sub-property over cases of type C.  C must be
// JSON-serialisable: the encoding is the replay format and the distinctness key.
type Prop[C any] struct {
	Name string
	// Checks returns the number of rapid cases for this tier (per shard); 0 = skip.
	Checks func(tier string) int
	Gen    func(t *rapid.T) C
	// Enum enumerates a finite space deterministically; the runner shards it.
	Enum func(tier string, yield func(C) bool)
	// Exhaustive reports whether Enum covers its whole stated space in this tier.
	Exhaustive string // description of the finite space, "" if none
	Check      func(c C) Outcome
	// Shrink proposes smaller variants of a failing enumerated case.
	Shrink func(c C) []C
	// Key overrides the default distinctness key (hash of the JSON encoding).
	Key func(c C) uint64
}

func (p Prop[C]) SubName() string { return p.Name }

func (p Prop[C]) Replay(raw json.RawMessage) (Outcome, error) {
	var c C
	dec := json.NewDecoder(strings.NewReader(string(raw)))
	if err := dec.Decode(&c); err != nil {
		return Outcome{}, err
	}
	return safeCheck(p.Check, c), nil
}

func safeCheck[C any](check func(C) Outcome, c C) (o Outcome) {
	defer func() {
		if e := recover(); e != nil {
			o = Outcome{Label: "panic", Nontrivial: true,
				Fail: fmt.Sprintf("panic: %v\n%s", e, trimStack(debug.Stack()))}
		}
	}()
	return check(c)
}

func trimStack(b []byte) string {
	s := string(b)
	lines := strings.Split(s, "\n")
	if len(lines) > 40 {
		lines = lines[:40]
	}
	return strings.Join(lines, "\n")
}

func (p Prop[C]) key(c C) uint64 {
	if p.Key != nil {
		return p.Key(c)
	}
	b, _ := json.Marshal(c)
	h := fnv.New64a()
	h.Write([]byte(p.Name))
	h.Write(b)
	return h.Sum64()
}

// Run executes the sub-property on a recorder.
func (p Prop[C]) Run(r *Rec) {
	st := r.sub(p.Name)
	start := time.Now()
	if p.Enum != nil {
		p.runEnum(r, st)
	}
	if p.Gen != nil && p.Checks != nil {
		if n := p.Checks(r.Tier); n > 0 {
			p.runRapid(r, st, n)
		}
	}
	st.WallS += time.Since(start).Seconds()
}

func (p Prop[C]) runEnum(r *Rec, st *SubStat) {
	idx := 0
	fails := 0
	complete := true
	p.Enum(r.Tier, func(c C) bool {
		mine := idx%r.NShards == r.Shard
		idx++
		if !mine {
			return true
		}
		r.slot(p.Name, c)
		o := safeCheck(p.Check, c)
		r.progress()
		st.Enumerated++
		if o.Fail != "" && o.Known == "" {
			// model-level minimisation
			if p.Shrink != nil {
				c, o = p.shrinkCase(r, c, o)
			}
			r.violation(p.Name, c, o, "enumerated case")
			fails++
			if fails >= 3 {
				complete = false
				return false
			}
			return true
		}
		r.countKeyed(p.Name, st, func() uint64 { return p.key(c) }, func() json.RawMessage { b, _ := json.Marshal(c); return b }, o)
		return true
	})
	if p.Exhaustive != "" && complete {
		st.Exhaustive = p.Exhaustive
	}
}

func (p Prop[C]) shrinkCase(r *Rec, c C, o Outcome) (C, Outcome) {
	for round := 0; round < 200; round++ {
		improved := false
		for _, cand := range p.Shrink(c) {
			r.slot(p.Name, cand)
			oc := safeCheck(p.Check, cand)
			r.progress()
			if oc.Fail != "" && oc.Known == "" {
				c, o = cand, oc
				improved = true
				break
			}
		}
		if !improved {
			break
		}
	}
	return c, o
}

func (p Prop[C]) runRapid(r *Rec, st *SubStat, checks int) {
	tb := &capTB{name: r.Property + "/" + p.Name}
	seed := r.subSeed(p.Name)
	flag.Set("rapid.seed", strconv.FormatUint(seed, 10))
	flag.Set("rapid.checks", strconv.Itoa(checks))
	flag.Set("rapid.nofailfile", "true")
	if r.Tier == "quick" {
		flag.Set("rapid.shrinktime", "8s")
	} else {
		flag.Set("rapid.shrinktime", "30s")
	}
	var lastFail *C
	var lastOut Outcome
	rapid.Check(tb, func(t *rapid.T) {
		c := p.Gen(t)
		r.slot(p.Name, c)
		o := safeCheck(p.Check, c)
		r.progress()
		if o.Fail != "" && o.Known == "" {
			cc := c
			lastFail, lastOut = &cc, o
			t.Fatalf("%s", firstLine(o.Fail))
		}
		r.countKeyed(p.Name, st, func() uint64 { return p.key(c) }, func() json.RawMessage { b, _ := json.Marshal(c); return b }, o)
	})
	st.RapidSeed = seed
	st.RapidChecksRequested += checks
	if tb.failed {
		if lastFail != nil {
			c, o := *lastFail, lastOut
			if p.Shrink != nil {
				c, o = p.shrinkCase(r, c, o)
			}
			r.violation(p.Name, c, o, tb.logs())
		} else {
			// rapid itself failed (generator problem): infrastructure, not a violation
			r.infra(fmt.Sprintf("%s: rapid failed without a failing case: %s", p.Name, tb.logs()))
		}
	}
}

func firstLine(s string) string {
	if i := strings.IndexByte(s, '\n'); i >= 0 {
		return s[:i]
	}
	return s
}

// capTB captures rapid's verdict instead of failing a *testing.T.
type capTB struct {
	name   string
	mu     sync.Mutex
	failed bool
	buf    []string
}

func (t *capTB) Helper()      {}
func (t *capTB) Name() string { return t.name }
func (t *capTB) add(s string) {
	t.mu.Lock()
	if len(t.buf) < 200 {
		t.buf = append(t.buf, s)
	}
	t.mu.Unlock()
}
func (t *capTB) Logf(format string, args ...any)  { t.add(fmt.Sprintf(format, args...)) }
func (t *capTB) Log(args ...any)                  { t.add(fmt.Sprint(args...)) }
func (t *capTB) Skipf(format string, args ...any) { t.add("skip: " + fmt.Sprintf(format, args...)) }
func (t *capTB) Skip(args ...any)                 { t.add("skip: " + fmt.Sprint(args...)) }
func (t *capTB) SkipNow()                         {}
func (t *capTB) Errorf(format string, args ...any) {
	t.failed = true
	t.add(fmt.Sprintf(format, args...))
}
func (t *capTB) Error(args ...any) { t.failed = true; t.add(fmt.Sprint(args...)) }
func (t *capTB) Fatalf(format string, args ...any) {
	t.failed = true
	t.add(fmt.Sprintf(format, args...))
}
func (t *capTB) Fatal(args ...any) { t.failed = true; t.add(fmt.Sprint(args...)) }
func (t *capTB) FailNow()          { t.failed = true }
func (t *capTB) Fail()             { t.failed = true }
func (t *capTB) Failed() bool      { return t.failed }
func (t *capTB) logs() string {
	t.mu.Lock()
	defer t.mu.Unlock()
	s := strings.Join(t.buf, "\n")
	if len(s) > 6000 {
		s = s[:6000] + "…"
	}
	return s
}

// SubStat is the per-sub-property part of the evidence.
type SubStat struct {
	Evaluations          int64            `json:"evaluations"`
	Nontrivial           int64            `json:"nontrivial"`
	Skipped              int64            `json:"skipped_outside_domain"`
	Enumerated           int64            `json:"enumerated"`
	Exhaustive           string           `json:"exhaustive_space,omitempty"`
	RapidSeed            uint64           `json:"rapid_seed,omitempty"`
	RapidChecksRequested int              `json:"rapid_checks_requested,omitempty"`
	WallS                float64          `json:"wall_s"`
	Labels               map[string]int64 `json:"labels"`
}

// Rec records what one process (one shard) of a check covered.
type Rec struct {
	Property string
	PropIdx  int
	Tier     string
	Seed     int64
	Shard    int
	NShards  int

	mu         sync.Mutex
	subs       map[string]*SubStat
	order      []string
	hashes     map[uint64]struct{}
	samples    map[string][]json.RawMessage
	nsamples   int
	known      map[string]int64
	knownEx    map[string]json.RawMessage
	violations []ViolationRec
	infraErrs  []string
	Extra      map[string]any
	Warnings   []string

	prog            atomic.Int64
	slotMu          sync.Mutex
	slotSub         string
	slotVal         any
	HangIsViolation bool
	WatchdogS       int
	// PersistSlot writes the case about to be executed to <partial>.slot so that a fatal
	// runtime error (stack overflow), which no recover() can catch, leaves the input behind.
	PersistSlot bool
	slotFile    *os.File
}

// ViolationRec describes one reported violation.
type ViolationRec struct {
	Sub     string `json:"sub"`
	Replay  string `json:"replay"`
	Message string `json:"message"`
}

// ReplayFile is the on-disk format of replays and regression cases.
type ReplayFile struct {
	Property string          `json:"property"`
	Sub      string          `json:"sub"`
	Case     json.RawMessage `json:"case"`
	Message  string          `json:"message,omitempty"`
	Log      string          `json:"log,omitempty"`
	Expect   string          `json:"expect,omitempty"` // regress files: "pass" (default) or "known:<id>"
	Note     string          `json:"note,omitempty"`
	Seed     int64           `json:"seed,omitempty"`
	Tier     string          `json:"tier,omitempty"`
}

func envInt(name string, def int64) int64 {
	if v := os.Getenv(name); v != "" {
		if n, err := strconv.ParseInt(v, 10, 64); err == nil {
			return n
		}
	}
	return def
}

// Root is the /verif directory.
func Root() string {
	if v := os.Getenv("VERIF_ROOT"); v != "" {
		return v
	}
	return "/verif"
}

func newRec(property string) *Rec {
	idx, _ := strconv.Atoi(strings.TrimPrefix(property, "C"))
	tier := os.Getenv("VERIF_TIER")
	if tier != "thorough" {
		tier = "quick"
	}
	r := &Rec{
		Property: property, PropIdx: idx, Tier: tier,
		Seed:    envInt("VERIF_SEED", 1),
		Shard:   int(envInt("VERIF_SHARD", 0)),
		NShards: int(envInt("VERIF_NSHARDS", 1)),
		subs:    map[string]*SubStat{}, hashes: map[uint64]struct{}{},
		samples: map[string][]json.RawMessage{}, known: map[string]int64{},
		knownEx: map[string]json.RawMessage{}, Extra: map[string]any{},
		WatchdogS: int(envInt("VERIF_WATCHDOG_S", 30)),
	}
	if r.NShards < 1 {
		r.NShards = 1
	}
	return r
}

func (r *Rec) sub(name string) *SubStat {
	r.mu.Lock()
	defer r.mu.Unlock()
	st, ok := r.subs[name]
	if !ok {
		st = &SubStat{Labels: map[string]int64{}}
		r.subs[name] = st
		r.order = append(r.order, name)
	}
	return st
}

func (r *Rec) subSeed(sub string) uint64 {
	h := fnv.New32a()
	h.Write([]byte(sub))
	v := uint64(r.Seed)*1000003 + uint64(r.PropIdx)*7919 + uint64(r.Shard)*104729 + uint64(h.Sum32())
	return 1 + v%(1<<31-2)
}

func (r *Rec) slot(sub string, c any) {
	r.slotMu.Lock()
	r.slotSub, r.slotVal = sub, c
	r.slotMu.Unlock()
	if r.PersistSlot {
		if _, isStr := c.(string); isStr {
			return // progress notes of multi-call cases, not a case
		}
		if r.slotFile == nil {
			if out := os.Getenv("VERIF_PARTIAL_OUT"); out != "" {
				r.slotFile, _ = os.Create(out + ".slot")
			}
		}
		if r.slotFile != nil {
			raw, err := json.Marshal(c)
			if err == nil {
				b, _ := json.Marshal(ReplayFile{Property: r.Property, Sub: sub, Case: raw, Message: "the process died with a fatal runtime error while executing this case"})
				r.slotFile.Truncate(0)
				r.slotFile.WriteAt(b, 0)
			}
		}
	}
}

func (r *Rec) progress() { r.prog.Add(1) }

// Progress lets long-running checks signal liveness between library calls.
func (r *Rec) Progress() { r.prog.Add(1) }

// Slot publishes the call about to be made (used by checks that make several calls per case).
func (r *Rec) Slot(sub string, c any) { r.slot(sub, c) }

const maxSamplesPerLabel = 2
const maxSamples = 60

// count is generic through a closure to avoid reflection on hot paths.
func (r *Rec) countKeyed(sub string, st *SubStat, k func() uint64, enc func() json.RawMessage, o Outcome) {
	if o.Infra != "" {
		if len(r.infraErrs) < 5 {
			r.infraErrs = append(r.infraErrs, sub+": "+o.Infra+" case="+string(enc()))
			fmt.Printf("INFRA property=%s %s: %s\n", r.Property, sub, o.Infra)
		}
		return
	}
	if o.Evals > 0 {
		st.Evaluations += o.Evals
	} else {
		st.Evaluations++
	}
	if o.Skip {
		st.Skipped++
		return
	}
	if o.Known != "" {
		r.known[o.Known]++
		if _, ok := r.knownEx[o.Known]; !ok {
			r.knownEx[o.Known] = enc()
		}
		st.Labels["known:"+o.Known]++
		return
	}
	label := o.Label
	if label == "" {
		label = "-"
	}
	if o.LabelCounts != nil {
		for l, n := range o.LabelCounts {
			st.Labels[l] += n
		}
	} else {
		st.Labels[label]++
	}
	if o.Keys != nil {
		st.Nontrivial += int64(len(o.Keys))
		for _, h := range o.Keys {
			r.hashes[h] = struct{}{}
		}
	} else if o.Nontrivial {
		st.Nontrivial++
		r.hashes[k()] = struct{}{}
	}
	full := sub + ":" + label
	if r.nsamples < maxSamples && len(r.samples[full]) < maxSamplesPerLabel && (o.Nontrivial || len(r.samples) < 8) {
		r.samples[full] = append(r.samples[full], enc())
		r.nsamples++
	}
}

func (r *Rec) violation(sub string, c any, o Outcome, log string) {
	raw, _ := json.Marshal(c)
	rf := ReplayFile{Property: r.Property, Sub: sub, Case: raw, Message: o.Fail, Log: log, Seed: r.Seed, Tier: r.Tier}
	h := fnv.New64a()
	h.Write([]byte(sub))
	h.Write(raw)
	dir := filepath.Join(Root(), "replays")
	os.MkdirAll(dir, 0o755)
	path := filepath.Join(dir, fmt.Sprintf("%s-%s-%016x.json", r.Property, sanitize(sub), h.Sum64()))
	b, _ := json.MarshalIndent(rf, "", " ")
	os.WriteFile(path, b, 0o644)
	r.mu.Lock()
	r.violations = append(r.violations, ViolationRec{Sub: sub, Replay: path, Message: firstLine(o.Fail)})
	r.mu.Unlock()
	fmt.Printf("VIOLATION property=%s replay=%s sub=%s :: %s\n", r.Property, path, sub, firstLine(o.Fail))
}

func sanitize(s string) string {
	return strings.Map(func(c rune) rune {
		if c >= 'a' && c <= 'z' || c >= 'A' && c <= 'Z' || c >= '0' && c <= '9' || c == '_' {
			return c
		}
		return '_'
	}, s)
}

func (r *Rec) infra(msg string) {
	r.mu.Lock()
	r.infraErrs = append(r.infraErrs, msg)
	r.mu.Unlock()
	fmt.Printf("INFRA property=%s %s\n", r.Property, msg)
}

// Infra records a harness-side failure (oracle self-check etc.): exit status 2, never a violation.
func (r *Rec) Infra(format string, a ...any) { r.infra(fmt.Sprintf(format, a...)) }

// Warn records a generator-health warning in the evidence.
func (r *Rec) Warn(format string, a ...any) {
	r.mu.Lock()
	r.Warnings = append(r.Warnings, fmt.Sprintf(format, a...))
	r.mu.Unlock()
}

func (r *Rec) watchdog(done chan struct{}) {
	last := r.prog.Load()
	lastT := time.Now()
	tick := time.NewTicker(500 * time.Millisecond)
	defer tick.Stop()
	for {
		select {
		case <-done:
			return
		case <-tick.C:
			cur := r.prog.Load()
			if cur != last {
				last, lastT = cur, time.Now()
				continue
			}
			if time.Since(lastT) > time.Duration(r.WatchdogS)*time.Second {
				r.slotMu.Lock()
				sub, val := r.slotSub, r.slotVal
				r.slotMu.Unlock()
				if sub == "" {
					continue
				}
				msg := fmt.Sprintf("no progress for %ds in one call (hang)", r.WatchdogS)
				if r.HangIsViolation {
					r.violation(sub, val, Outcome{Fail: msg}, "watchdog")
					r.writePartial()
					os.Exit(1)
				}
				raw, _ := json.Marshal(val)
				if len(raw) > 2000 {
					raw = raw[:2000]
				}
				r.infra(fmt.Sprintf("%s: %s; case=%s", sub, msg, raw))
				r.writePartial()
				os.Exit(2)
			}
		}
	}
}

type partial struct {
	Property   string                       `json:"property"`
	Tier       string                       `json:"tier"`
	Seed       int64                        `json:"seed"`
	Shard      int                          `json:"shard"`
	NShards    int                          `json:"nshards"`
	Subs       map[string]*SubStat          `json:"subs"`
	Order      []string                     `json:"order"`
	Samples    map[string][]json.RawMessage `json:"samples"`
	Known      map[string]int64             `json:"known"`
	KnownEx    map[string]json.RawMessage   `json:"known_examples"`
	Violations []ViolationRec               `json:"violations"`
	Infra      []string                     `json:"infra"`
	Extra      map[string]any               `json:"extra"`
	Warnings   []string                     `json:"warnings"`
	DistinctNT int                          `json:"distinct_nontrivial_shard"`
	HashFile   string                       `json:"hash_file"`
	WallS      float64                      `json:"wall_s"`
	RegressRun int                          `json:"regress_run"`
}

var startTime = time.Now()
var regressRun int

func (r *Rec) writePartial() {
	out := os.Getenv("VERIF_PARTIAL_OUT")
	if out == "" {
		return
	}
	r.mu.Lock()
	defer r.mu.Unlock()
	hf := out + ".hashes"
	buf := make([]byte, 0, 8*len(r.hashes))
	keys := make([]uint64, 0, len(r.hashes))
	for h := range r.hashes {
		keys = append(keys, h)
	}
	sort.Slice(keys, func(i, j int) bool { return keys[i] < keys[j] })
	for _, h := range keys {
		buf = binary.LittleEndian.AppendUint64(buf, h)
	}
	os.WriteFile(hf, buf, 0o644)
	p := partial{Property: r.Property, Tier: r.Tier, Seed: r.Seed, Shard: r.Shard, NShards: r.NShards,
		Subs: r.subs, Order: r.order, Samples: r.samples, Known: r.known, KnownEx: r.knownEx,
		Violations: r.violations, Infra: r.infraErrs, Extra: r.Extra, Warnings: r.Warnings,
		DistinctNT: len(r.hashes), HashFile: hf, WallS: time.Since(startTime).Seconds(), RegressRun: regressRun}
	b, _ := json.Marshal(p)
	os.WriteFile(out, b, 0o644)
}

// MergeHashes unions the sorted hash files given and prints the distinct count (driver helper).
func MergeHashes(files []string) int {
	var all []uint64
	for _, f := range files {
		b, err := os.ReadFile(f)
		if err != nil {
			continue
		}
		for i := 0; i+8 <= len(b); i += 8 {
			all = append(all, binary.LittleEndian.Uint64(b[i:]))
		}
	}
	sort.Slice(all, func(i, j int) bool { return all[i] < all[j] })
	n := 0
	for i, h := range all {
		if i == 0 || h != all[i-1] {
			n++
		}
	}
	return n
}

// Main runs a check: replay mode, regression tier, then all sub-properties.
// setup may adjust the recorder (watchdog policy, extras) before anything runs.
func Main(t *testing.T, property string, subs []Sub, setup func(r *Rec)) {
	r := newRec(property)
	if setup != nil {
		setup(r)
	}
	byName := map[string]Sub{}
	for _, s := range subs {
		byName[s.SubName()] = s
	}
	done := make(chan struct{})
	go r.watchdog(done)
	defer close(done)

	if path := os.Getenv("VERIF_REPLAY"); path != "" {
		code := r.replayOne(byName, path, true)
		r.writePartial()
		if code != 0 {
			os.Exit(code)
		}
		return
	}
	// regression tier: every kept case must still behave as recorded
	if r.Shard == 0 {
		dir := filepath.Join(Root(), "harness", "testdata", "regress", property)
		files, _ := filepath.Glob(filepath.Join(dir, "*.json"))
		sort.Strings(files)
		for _, f := range files {
			r.replayOne(byName, f, false)
			regressRun++
		}
	}
	only := os.Getenv("VERIF_SUB")
	for _, s := range subs {
		if only != "" && !strings.Contains(s.SubName(), only) {
			continue
		}
		s.Run(r)
	}
	r.writePartial()
	r.mu.Lock()
	nv, ni := len(r.violations), len(r.infraErrs)
	r.mu.Unlock()
	if nv > 0 {
		os.Exit(1)
	}
	if ni > 0 {
		os.Exit(2)
	}
}

func (r *Rec) replayOne(byName map[string]Sub, path string, verbose bool) int {
	b, err := os.ReadFile(path)
	if err != nil {
		r.infra("cannot read replay file " + path + ": " + err.Error())
		return 2
	}
	var rf ReplayFile
	if err := json.Unmarshal(b, &rf); err != nil {
		r.infra("cannot decode replay file " + path + ": " + err.Error())
		return 2
	}
	s, ok := byName[rf.Sub]
	if !ok || rf.Property != r.Property {
		r.infra(fmt.Sprintf("replay file %s is for %s/%s, not known to check %s", path, rf.Property, rf.Sub, r.Property))
		return 2
	}
	r.slot(rf.Sub, rf.Case)
	o, err := s.Replay(rf.Case)
	r.progress()
	if err != nil {
		r.infra("cannot decode case in " + path + ": " + err.Error())
		return 2
	}
	if o.Fail != "" && o.Known == "" {
		r.mu.Lock()
		r.violations = append(r.violations, ViolationRec{Sub: rf.Sub, Replay: path, Message: firstLine(o.Fail)})
		r.mu.Unlock()
		fmt.Printf("VIOLATION property=%s replay=%s sub=%s :: %s\n", r.Property, path, rf.Sub, firstLine(o.Fail))
		if verbose {
			fmt.Println(o.Fail)
		}
		return 1
	}
	if o.Known != "" {
		r.mu.Lock()
		r.known[o.Known]++
		if _, ok := r.knownEx[o.Known]; !ok {
			r.knownEx[o.Known] = rf.Case
		}
		r.mu.Unlock()
		if verbose {
			fmt.Printf("replay %s: explained by known finding %s\n", path, o.Known)
		}
	} else if verbose {
		fmt.Printf("replay %s: passes (label %q)\n", path, o.Label)
	}
	return 0
}
