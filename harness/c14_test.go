package harness

// C14 — the bounding rectangle of a radius search covers the whole disc (DESIGN.md §4 C14).

import (
	"math"
	"testing"

	"github.com/tidwall/geojson/geo"
	"pgregory.net/rapid"
	"verifharness/fw"
	"verifharness/sphere"
)

type c14Case struct {
	Lat  F      `json:"lat"`
	Lon  F      `json:"lon"`
	R    F      `json:"metres"`
	Brgs []F    `json:"bearings"`
	Frac []F    `json:"fractions"` // probe distances as fractions of the radius
	Kind string `json:"kind"`
}

const mPerDeg = sphere.R * math.Pi / 180

func c14Check(c c14Case) fw.Outcome {
	lat, lon, r := float64(c.Lat), float64(c.Lon), float64(c.R)
	minLat, minLon, maxLat, maxLon := geo.RectFromCenter(lat, lon, r)
	label := c.Kind
	for _, v := range []float64{minLat, minLon, maxLat, maxLon} {
		if math.IsNaN(v) {
			return fw.Failf(label, "RectFromCenter(%v,%v,%v) = (%v,%v,%v,%v) contains NaN", lat, lon, r, minLat, minLon, maxLat, maxLon)
		}
	}
	const eps = 1e-9 // degrees of slack for the radians->degrees conversion
	if c.Kind == "pole-directed/ulps" {
		// the rim within a few units in the last place of the pole: the neighbouring latitudes too (a rounding
		// coincidence such as sin(r) > cos(lat) one ulp short of the pole is rare at any single latitude)
		for k := -8; k <= 8; k++ {
			l := lat
			for j := k; j != 0; {
				if j > 0 {
					l, j = math.Nextafter(l, math.Inf(1)), j-1
				} else {
					l, j = math.Nextafter(l, math.Inf(-1)), j+1
				}
			}
			if l < -90 || l > 90 {
				continue
			}
			a, b, cc, d := geo.RectFromCenter(l, lon, r)
			if math.IsNaN(a) || math.IsNaN(b) || math.IsNaN(cc) || math.IsNaN(d) {
				return fw.Failf(label, "RectFromCenter(%v,%v,%v) = (%v,%v,%v,%v) contains NaN", l, lon, r, a, b, cc, d)
			}
			if a < -90-eps || cc > 90+eps || b < -180-eps || d > 180+eps || a > cc || b > d {
				return fw.Failf(label, "RectFromCenter(%v,%v,%v) = (%v,%v,%v,%v) is not within the world bounds", l, lon, r, a, b, cc, d)
			}
		}
	}
	if minLat < -90-eps || maxLat > 90+eps || minLon < -180-eps || maxLon > 180+eps || minLat > maxLat || minLon > maxLon {
		return fw.Failf(label, "RectFromCenter(%v,%v,%v) = (%v,%v,%v,%v) is not within the world bounds", lat, lon, r, minLat, minLon, maxLat, maxLon)
	}
	// the centre itself is a location at distance 0 <= r: it lies inside the rectangle for every radius
	if over := math.Max(math.Max(minLat-lat, lat-maxLat)*mPerDeg, math.Max(minLon-lon, lon-maxLon)*mPerDeg*math.Cos(lat*math.Pi/180)); over > 0.01 {
		return fw.Failf(label, "the centre (%v,%v) is %.3g m outside RectFromCenter(.., %v) = (%v,%v,%v,%v)", lat, lon, over, r, minLat, minLon, maxLat, maxLon)
	}
	if r < 1 {
		// "radii too small to resolve return the degenerate rectangle at the centre": nothing further than ~1 m away
		if h := (maxLat - minLat) * mPerDeg; h > 2.2 {
			return fw.Failf(label, "RectFromCenter(%v,%v,%v) spans %.3g m in latitude for a sub-metre radius", lat, lon, r, h)
		}
		return fw.OK(label+"/sub-metre", true)
	}
	full := minLon <= -180+eps && maxLon >= 180-eps
	ang := r / sphere.R * 180 / math.Pi // angular radius in degrees
	// the disc reaches a pole (by more than 1 cm)
	if (lat+ang > 90+0.01/mPerDeg || lat-ang < -90-0.01/mPerDeg) && !full {
		return fw.Failf(label, "disc of %v m around (%v,%v) reaches a pole but the box (%v,%v,%v,%v) does not span all longitudes", r, lat, lon, minLat, minLon, maxLat, maxLon)
	}
	// probes: cardinal bearings, the given bearings and the bearing of the extreme longitude
	brgs := []float64{0, 90, 180, 270}
	for _, b := range c.Brgs {
		brgs = append(brgs, float64(b))
	}
	if tb, ok := tangentBearing(lat, lon, r); ok {
		brgs = append(brgs, tb, 360-tb)
	}
	fracs := []float64{1}
	for _, f := range c.Frac {
		fracs = append(fracs, float64(f))
	}
	nt := c.Kind != "general"
	for _, b := range brgs {
		for _, f := range fracs {
			p := sphere.Destination(lat, lon, r*f, b)
			plat, plon := p.LatLon()
			// latitude
			if over := math.Max(minLat-plat, plat-maxLat) * mPerDeg; over > 0.01 {
				return fw.Failf(label, "location (%v,%v) at %.6g m (bearing %v) from (%v,%v) is %.3g m outside the latitude range [%v,%v] of RectFromCenter(.., %v)",
					plat, plon, r*f, b, lat, lon, over, minLat, maxLat, r)
			}
			// a probe on the other side of the antimeridian is unwrapped towards the centre:
			// a box that does not span all longitudes cannot hold it beyond +-180
			if plon-lon > 180 {
				plon -= 360
			} else if lon-plon > 180 {
				plon += 360
			}
			if !full {
				over := math.Max(minLon-plon, plon-maxLon) * mPerDeg * math.Cos(plat*math.Pi/180)
				if over > 0.01 {
					return fw.Failf(label, "location (%v,%v) at %.6g m (bearing %.6g) from (%v,%v) is %.3g m outside the longitude range [%v,%v] of RectFromCenter(.., %v)",
						plat, plon, r*f, b, lat, lon, over, minLon, maxLon, r)
				}
				if over > -0.01*r && f == 1 {
					nt = true // within 1 % of the box edge
				}
			}
		}
	}
	return fw.OK(label, nt)
}

// tangentBearing finds the bearing in (0,180) at which the rim of the disc reaches its extreme longitude.
func tangentBearing(lat, lon, r float64) (float64, bool) {
	if (90-math.Abs(lat))*mPerDeg <= r {
		return 0, false
	}
	dl := func(b float64) float64 {
		_, plon := sphere.Destination(lat, lon, r, b).LatLon()
		d := plon - lon
		if d < -180 {
			d += 360
		}
		if d > 180 {
			d -= 360
		}
		return d
	}
	best, bb := -1.0, 90.0
	for b := 1.0; b < 180; b += 2 {
		if v := dl(b); v > best {
			best, bb = v, b
		}
	}
	lo, hi := bb-2, bb+2
	for i := 0; i < 60; i++ {
		m1, m2 := lo+(hi-lo)/3, hi-(hi-lo)/3
		if dl(m1) < dl(m2) {
			lo = m1
		} else {
			hi = m2
		}
	}
	return (lo + hi) / 2, true
}

func c14Gen(t *rapid.T) c14Case {
	c := c14Case{Kind: "general"}
	lat, lon := genLat(t, "lat"), genLon(t, "lon")
	r := math.Pow(10, rapid.Float64Range(0, math.Log10(piR)).Draw(t, "rexp"))
	if rapid.IntRange(0, 9).Draw(t, "beyond") == 0 {
		// "every radius of at least one metre": beyond half the circumference the disc is the whole sphere
		r = rapid.SampledFrom([]float64{piR * 1.0000001, 1.5 * piR, 2 * piR, 2*piR + 1000, 2*piR + 2e6, 3 * piR, 4*piR + 50, 1e8, 1e9, 1e12, 1e18, 1e300}).Draw(t, "rbig")
		c.Kind = "beyond-half-circumference"
		c.Lat, c.Lon, c.R = F(lat), F(lon), F(r)
		return c
	}
	switch rapid.IntRange(0, 7).Draw(t, "kind") {
	case 0: // boundary radii
		r = rapid.SampledFrom([]float64{1, 1.0000001, 1.5, 2, piR / 2, piR, piR * 0.9999999, 0.5, 0.3, 0.01, 0, 1e-9, 100}).Draw(t, "rb")
		c.Kind = "boundary-radius"
	case 1: // small radii (cancellation in the longitude formula)
		r = rapid.Float64Range(1, 30).Draw(t, "rsmall")
		c.Kind = "small-radius"
	case 2: // the disc just reaches / just misses a pole
		e := rapid.Float64Range(-1e-3, 1e-3).Draw(t, "e")
		if rapid.Bool().Draw(t, "tiny") {
			e *= 1e-6
		}
		ang := r / sphere.R * 180 / math.Pi
		if ang < 180 {
			lat = 90 - ang*(1+e)
			if rapid.Bool().Draw(t, "south") {
				lat = -lat
			}
			lat = math.Max(-90, math.Min(90, lat))
		}
		c.Kind = "pole-directed"
		if ang < 180 && rapid.IntRange(0, 2).Draw(t, "poleulps") == 0 {
			// the rim passes within a few units in the last place of the pole, as the library's own arithmetic sees it
			// (latitude in radians plus the angular radius against pi/2)
			if rapid.IntRange(0, 3).Draw(t, "poleulpr") > 0 {
				r = rapid.Float64Range(1e4, 9.9e6).Draw(t, "poleulprv") // centres at all latitudes, not mostly next to the pole
			}
			lat = (math.Pi/2 - r/sphere.R) * 180 / math.Pi
			dir := math.Inf(1 - 2*rapid.IntRange(0, 1).Draw(t, "poleulpdir"))
			for i := rapid.IntRange(0, 4).Draw(t, "poleulpn"); i > 0; i-- {
				lat = math.Nextafter(lat, dir)
			}
			if rapid.Bool().Draw(t, "south2") {
				lat = -lat
			}
			lat = math.Max(-90, math.Min(90, lat))
			c.Kind = "pole-directed/ulps"
		}
	case 3: // the disc just reaches / just misses the antimeridian
		ang := r / sphere.R
		if s := math.Sin(ang) / math.Cos(lat*math.Pi/180); ang < math.Pi/2 && s < 1 && s > 0 {
			dl := math.Asin(s) * 180 / math.Pi
			e := rapid.Float64Range(-1e-3, 1e-3).Draw(t, "e")
			lon = 180 - dl*(1+e)
			if rapid.Bool().Draw(t, "west") {
				lon = -lon
			}
			lon = math.Max(-180, math.Min(180, lon))
		}
		c.Kind = "antimeridian-directed"
	case 4: // sub-metre: only NaN / bounds
		r = math.Pow(10, rapid.Float64Range(-12, 0).Draw(t, "rsub"))
		c.Kind = "sub-metre"
	}
	c.Lat, c.Lon, c.R = F(lat), F(lon), F(r)
	for i := rapid.IntRange(2, 8).Draw(t, "nb"); i > 0; i-- {
		c.Brgs = append(c.Brgs, F(rapid.Float64Range(0, 360).Draw(t, "b")))
	}
	for i := rapid.IntRange(0, 3).Draw(t, "nf"); i > 0; i-- {
		c.Frac = append(c.Frac, F(rapid.Float64Range(0, 1).Draw(t, "f")))
	}
	return c
}

func c14Subs() []fw.Sub {
	return []fw.Sub{fw.Prop[c14Case]{
		Name: "rect-from-center",
		Checks: func(tier string) int {
			if tier == "thorough" {
				return 800000
			}
			return 150000
		},
		Gen: c14Gen, Check: c14Check,
	}}
}

func TestC14(t *testing.T) { fw.Main(t, "C14", c14Subs(), nil) }
