package harness

// C01 — point membership is exact (DESIGN.md §4 C01).

import (
	"encoding/json"
	"fmt"
	"hash/fnv"
	"testing"

	"github.com/tidwall/geojson"
	"github.com/tidwall/geojson/geometry"
	"pgregory.net/rapid"
	"verifharness/adapt"
	"verifharness/exact"
	"verifharness/fw"
)

type c01Case struct {
	S       exact.Shape `json:"shape"`
	Pts     []exact.P   `json:"points"` // query points; empty = every point of the box extended by one unit
	Enc     adapt.Enc   `json:"enc"`
	AllCfgs bool        `json:"all_index_configs"`
}

func shapeHash(s *exact.Shape) uint64 {
	b, _ := json.Marshal(s)
	h := fnv.New64a()
	h.Write(b)
	return h.Sum64()
}

func mix(h uint64, p exact.P) uint64 {
	h ^= uint64(p.X)*0x9E3779B97F4A7C15 + uint64(p.Y)*0xC2B2AE3D27D4EB4F
	h *= 0x100000001B3
	return h ^ (h >> 29)
}

func shapeRings(s *exact.Shape) [][]exact.P {
	switch s.K {
	case exact.KPoly:
		return append([][]exact.P{s.Ext}, s.Holes...)
	case exact.KLine:
		return [][]exact.P{s.Line}
	case exact.KRect:
		return [][]exact.P{{s.Min, {X: s.Max.X, Y: s.Min.Y}, s.Max, {X: s.Min.X, Y: s.Max.Y}}}
	}
	return [][]exact.P{{s.Pt}}
}

func c01Label(s *exact.Shape, q exact.P, member bool) (string, bool) {
	mn, mx, ok := s.Box()
	if !ok || q.X < mn.X || q.X > mx.X || q.Y < mn.Y || q.Y > mx.Y {
		return "outside-box", false
	}
	onB := false
	for _, e := range s.Boundary() {
		if exact.OnSeg(e, exact.Lat(q)) {
			onB = true
			break
		}
	}
	level, horiz, inHoleBox := false, false, false
	for _, r := range shapeRings(s) {
		for i, v := range r {
			if v.Y == q.Y {
				level = true
				if i+1 < len(r) && r[i+1].Y == q.Y && r[i+1] != v {
					horiz = true
				}
			}
		}
	}
	for _, h := range s.Holes {
		hs := exact.Shape{K: exact.KLine, Line: h}
		if a, b, ok := hs.Box(); ok && q.X >= a.X && q.X <= b.X && q.Y >= a.Y && q.Y <= b.Y {
			inHoleBox = true
		}
	}
	switch {
	case onB:
		return "on-boundary", true
	case horiz:
		return "level-with-horizontal-edge", true
	case level:
		return "level-with-vertex", true
	case inHoleBox:
		return "in-hole-box", true
	}
	if member {
		return "interior-general", false
	}
	return "exterior-general-in-box", false
}

func c01Check(c c01Case) fw.Outcome {
	s := &c.S
	encs := []adapt.Enc{c.Enc}
	if c.AllCfgs {
		encs = []adapt.Enc{
			{Scale: c.Enc.Scale}, {Scale: c.Enc.Scale, IndexKind: 1, MinPoints: 1}, {Scale: c.Enc.Scale, IndexKind: 2, MinPoints: 1},
		}
	} else if c.Enc.IndexKind != 0 || c.Enc.MinPoints != 0 {
		encs = append(encs, adapt.Enc{Scale: c.Enc.Scale})
	}
	geoms := make([]geometry.Geometry, len(encs))
	for i, e := range encs {
		geoms[i] = adapt.Geom(s, e)
	}
	pts := c.Pts
	if len(pts) == 0 {
		mn, mx, ok := s.Box()
		if !ok {
			mn, mx = exact.P{}, exact.P{}
		}
		for y := mn.Y - 1; y <= mx.Y+1; y++ {
			for x := mn.X - 1; x <= mx.X+1; x++ {
				pts = append(pts, exact.P{X: x, Y: y})
			}
		}
	}
	// the same shapes translated through Move: an indexed shape keeps answering after a move
	mdx, mdy := adapt.F(3, c.Enc.Scale), adapt.F(-5, c.Enc.Scale)
	moved := make([]geometry.Geometry, len(geoms))
	for i, g := range geoms {
		switch v := g.(type) {
		case *geometry.Line:
			moved[i] = v.Move(mdx, mdy)
		case *geometry.Poly:
			moved[i] = v.Move(mdx, mdy)
		}
	}
	// object-level operands
	obj := adapt.Obj(s, encs[0], 0)
	feat := adapt.Obj(s, encs[0], 2)
	sh := shapeHash(s)
	out := fw.Outcome{LabelCounts: map[string]int64{}, Keys: []uint64{}}
	kind := s.K.String()
	for qi, q := range pts {
		want := s.Member(exact.Lat(q))
		gp := adapt.Pt(q, c.Enc.Scale)
		label, nt := c01Label(s, q, want)
		out.Evals++
		out.LabelCounts[kind+"/"+label+fmt.Sprintf("/%v", want)]++
		if nt {
			out.Keys = append(out.Keys, mix(sh, q))
		}
		for gi, g := range geoms {
			if got := g.ContainsPoint(gp); got != want {
				return fw.Failf(label, "%v.ContainsPoint(%v) = %v, exact membership %v (index %+v)", s, q, got, want, encs[gi])
			}
			if got := g.IntersectsPoint(gp); got != want {
				return fw.Failf(label, "%v.IntersectsPoint(%v) = %v, exact membership %v (index %+v)", s, q, got, want, encs[gi])
			}
			var rev bool
			switch v := g.(type) {
			case geometry.Point:
				rev = gp.IntersectsPoint(v)
			case geometry.Rect:
				rev = gp.IntersectsRect(v)
			case *geometry.Line:
				rev = gp.IntersectsLine(v)
			case *geometry.Poly:
				rev = gp.IntersectsPoly(v)
			}
			if rev != want {
				return fw.Failf(label, "Point%v.Intersects<%s>(%v) = %v, exact membership %v (index %+v)", q, kind, s, rev, want, encs[gi])
			}
			if moved[gi] != nil {
				mp := geometry.Point{X: gp.X + mdx, Y: gp.Y + mdy}
				if got := moved[gi].ContainsPoint(mp); got != want {
					return fw.Failf(label, "%v moved by Move(%g,%g): ContainsPoint(%v moved) = %v, exact membership %v (index %+v)", s, mdx, mdy, q, got, want, encs[gi])
				}
			}
		}
		// object level: Point and SimplePoint against the object and a Feature wrapping it
		var po geojson.Object = geojson.NewPoint(gp)
		if qi%2 == 1 {
			po = geojson.NewSimplePoint(gp)
		}
		target := obj
		if qi%3 == 2 {
			target = feat
		}
		if got := target.Contains(po); got != want {
			return fw.Failf(label, "object %T(%v).Contains(%T%v) = %v, exact membership %v", target, s, po, q, got, want)
		}
		if got := po.Within(target); got != want {
			return fw.Failf(label, "object %T%v.Within(%T(%v)) = %v, exact membership %v", po, q, target, s, got, want)
		}
		if got := target.Intersects(po); got != want {
			return fw.Failf(label, "object %T(%v).Intersects(%T%v) = %v, exact membership %v", target, s, po, q, got, want)
		}
		if got := po.Intersects(target); got != want {
			return fw.Failf(label, "object %T%v.Intersects(%T(%v)) = %v, exact membership %v", po, q, target, s, got, want)
		}
	}
	return out
}

func c01Shrink(c c01Case) []c01Case {
	var out []c01Case
	// single query point first
	if len(c.Pts) != 1 {
		pts := c.Pts
		if len(pts) == 0 {
			mn, mx, _ := c.S.Box()
			for y := mn.Y - 1; y <= mx.Y+1; y++ {
				for x := mn.X - 1; x <= mx.X+1; x++ {
					pts = append(pts, exact.P{X: x, Y: y})
				}
			}
		}
		for _, p := range pts {
			out = append(out, c01Case{S: c.S, Pts: []exact.P{p}, Enc: c.Enc, AllCfgs: c.AllCfgs})
		}
		return out
	}
	drop := func(r []exact.P, i int) []exact.P { return append(append([]exact.P{}, r[:i]...), r[i+1:]...) }
	s := c.S
	switch s.K {
	case exact.KPoly:
		for i := range s.Holes {
			t := s
			t.Holes = append(append([][]exact.P{}, s.Holes[:i]...), s.Holes[i+1:]...)
			out = append(out, c01Case{S: t, Pts: c.Pts, Enc: c.Enc, AllCfgs: c.AllCfgs})
		}
		for i := range s.Ext {
			t := s
			t.Ext = drop(s.Ext, i)
			out = append(out, c01Case{S: t, Pts: c.Pts, Enc: c.Enc, AllCfgs: c.AllCfgs})
		}
		for hi, h := range s.Holes {
			for i := range h {
				t := s
				t.Holes = append([][]exact.P{}, s.Holes...)
				t.Holes[hi] = drop(h, i)
				out = append(out, c01Case{S: t, Pts: c.Pts, Enc: c.Enc, AllCfgs: c.AllCfgs})
			}
		}
	case exact.KLine:
		for i := range s.Line {
			t := s
			t.Line = drop(s.Line, i)
			out = append(out, c01Case{S: t, Pts: c.Pts, Enc: c.Enc, AllCfgs: c.AllCfgs})
		}
	}
	if c.Enc != (adapt.Enc{}) {
		out = append(out, c01Case{S: c.S, Pts: c.Pts, AllCfgs: c.AllCfgs})
	}
	return out
}

// genQueryPoints draws query points related to the shape.
func genQueryPoints(t *rapid.T, s *exact.Shape, n int) []exact.P {
	var verts []exact.P
	for _, r := range shapeRings(s) {
		verts = append(verts, r...)
	}
	edges := s.Boundary()
	mn, mx, ok := s.Box()
	if !ok {
		mn, mx = exact.P{X: -2, Y: -2}, exact.P{X: 2, Y: 2}
	}
	var out []exact.P
	for i := 0; i < n; i++ {
		var p exact.P
		m := rapid.IntRange(0, 6).Draw(t, "qmode")
		switch {
		case m == 0 && len(verts) > 0:
			p = verts[rapid.IntRange(0, len(verts)-1).Draw(t, "qv")]
		case m == 1 && len(edges) > 0: // lattice point on an edge (midpoint when the edge vector is even)
			e := edges[rapid.IntRange(0, len(edges)-1).Draw(t, "qe")]
			g := gcd(abs64(e.B.X-e.A.X), abs64(e.B.Y-e.A.Y))
			if g == 0 {
				p = e.A
			} else {
				k := int64(rapid.IntRange(0, int(min(g, 1<<20))).Draw(t, "qk"))
				if rapid.Bool().Draw(t, "qmid") {
					k = g / 2
				}
				p = exact.P{X: e.A.X + k*((e.B.X-e.A.X)/g), Y: e.A.Y + k*((e.B.Y-e.A.Y)/g)}
			}
		case m == 2 && len(verts) > 0: // level with a vertex
			v := verts[rapid.IntRange(0, len(verts)-1).Draw(t, "qv")]
			p = exact.P{X: int64(rapid.Int64Range(mn.X-1, mx.X+1).Draw(t, "qx")), Y: v.Y}
		case m == 3 && len(verts) > 0: // next to a vertex
			v := verts[rapid.IntRange(0, len(verts)-1).Draw(t, "qv")]
			p = clampP(exact.P{X: v.X + int64(rapid.IntRange(-1, 1).Draw(t, "dx")), Y: v.Y + int64(rapid.IntRange(-1, 1).Draw(t, "dy"))})
		default:
			p = exact.P{X: rapid.Int64Range(mn.X-1, mx.X+1).Draw(t, "qx"), Y: rapid.Int64Range(mn.Y-1, mx.Y+1).Draw(t, "qy")}
		}
		out = append(out, clampP(p))
	}
	return out
}

func double(ps []exact.P) []exact.P {
	o := make([]exact.P, len(ps))
	for i, p := range ps {
		o[i] = clampP(exact.P{X: 2 * p.X, Y: 2 * p.Y})
	}
	return o
}

// genAnyShape draws a shape from arbitrary vertex sequences (no validity filter).
func genAnyShape(t *rapid.T) exact.Shape {
	switch rapid.IntRange(0, 9).Draw(t, "kind") {
	case 0:
		return exact.Shape{K: exact.KPoint, Pt: genP(t, "pt")}
	case 1:
		a, b := genP(t, "ra"), genP(t, "rb")
		return exact.Shape{K: exact.KRect, Min: exact.P{X: min(a.X, b.X), Y: min(a.Y, b.Y)}, Max: exact.P{X: max(a.X, b.X), Y: max(a.Y, b.Y)}}
	case 2, 3:
		return exact.Shape{K: exact.KLine, Line: double(genVertexSeq(t, 120))}
	}
	s := exact.Shape{K: exact.KPoly, Ext: double(genVertexSeq(t, 300))}
	if len(s.Ext) > 0 && rapid.Bool().Draw(t, "close") {
		s.Ext = append(s.Ext, s.Ext[0])
	}
	nh := rapid.IntRange(0, 2).Draw(t, "nholes")
	mn, mx, ok := s.Box()
	for i := 0; i < nh && ok; i++ {
		// holes: arbitrary sequences drawn inside the exterior's box
		n := rapid.IntRange(0, 6).Draw(t, "hlen")
		var h []exact.P
		for j := 0; j < n; j++ {
			h = append(h, exact.P{X: rapid.Int64Range(mn.X, mx.X).Draw(t, "hx"), Y: rapid.Int64Range(mn.Y, mx.Y).Draw(t, "hy")})
		}
		if len(h) > 0 && rapid.Bool().Draw(t, "hclose") {
			h = append(h, h[0])
		}
		s.Holes = append(s.Holes, h)
	}
	return s
}

func c01Gen(t *rapid.T) c01Case {
	s := genAnyShape(t)
	n := 0
	for _, r := range shapeRings(&s) {
		n += len(r)
	}
	c := c01Case{S: s, Pts: genQueryPoints(t, &s, rapid.IntRange(1, 12).Draw(t, "nq")), Enc: genEnc(t, n)}
	if f := genFarAway(t, c.Enc.Scale); f != nil {
		c.S = mapShape(c.S, f)
		for i := range c.Pts {
			c.Pts[i] = f(c.Pts[i])
		}
	}
	return c
}

// tuples enumerates all sequences of the given length over lat.
func tuples(lat []exact.P, l int, yield func([]exact.P) bool) bool {
	idx := make([]int, l)
	for {
		pts := make([]exact.P, l)
		for i, k := range idx {
			pts[i] = lat[k]
		}
		if !yield(pts) {
			return false
		}
		i := l - 1
		for i >= 0 {
			idx[i]++
			if idx[i] < len(lat) {
				break
			}
			idx[i] = 0
			i--
		}
		if i < 0 {
			return true
		}
	}
}

func evenLattice(n int64) []exact.P {
	var out []exact.P
	for _, p := range latticePoints(n) {
		out = append(out, exact.P{X: 2 * p.X, Y: 2 * p.Y})
	}
	return out
}

func c01Enum(tier string, yield func(c01Case) bool) {
	lat4 := evenLattice(4)
	ringLens := []int{3, 4}
	if tier == "thorough" {
		ringLens = []int{3, 4, 5}
	}
	ok := true
	emit := func(s exact.Shape) bool {
		ok = yield(c01Case{S: s, AllCfgs: true})
		return ok
	}
	// polygons from arbitrary vertex sequences
	for _, l := range ringLens {
		if !tuples(lat4, l, func(p []exact.P) bool { return emit(exact.Shape{K: exact.KPoly, Ext: p}) }) {
			return
		}
	}
	if tier == "thorough" {
		lat5 := evenLattice(5)
		for _, l := range []int{3, 4} {
			if !tuples(lat5, l, func(p []exact.P) bool { return emit(exact.Shape{K: exact.KPoly, Ext: p}) }) {
				return
			}
		}
	}
	// polygons with one hole: fixed exteriors x all triangles (and, thorough, quadrilaterals) as holes
	exts := [][]exact.P{
		{{X: 0, Y: 0}, {X: 6, Y: 0}, {X: 6, Y: 6}, {X: 0, Y: 6}, {X: 0, Y: 0}},
		{{X: 0, Y: 0}, {X: 6, Y: 0}, {X: 6, Y: 6}, {X: 3, Y: 2}, {X: 0, Y: 6}},
		{{X: 0, Y: 0}, {X: 6, Y: 6}, {X: 6, Y: 0}, {X: 0, Y: 6}}, // bow tie
	}
	holeLens := []int{3}
	if tier == "thorough" {
		holeLens = []int{3, 4}
	}
	for _, ext := range exts {
		for _, l := range holeLens {
			if !tuples(lat4, l, func(p []exact.P) bool {
				return emit(exact.Shape{K: exact.KPoly, Ext: ext, Holes: [][]exact.P{p}})
			}) {
				return
			}
		}
	}
	// polygons with two holes that may overlap, nest, share edges or stick out: every 3-vertex hole on a 3x3
	// sub-lattice listed first, then one of a few fixed second holes (hole order matters to a loop that stops early)
	sub := []exact.P{}
	for _, p := range lat4 {
		if p.X >= 2 && p.X <= 6 && p.Y >= 2 && p.Y <= 6 && p.X%2 == 0 && p.Y%2 == 0 {
			sub = append(sub, p)
		}
	}
	second := [][]exact.P{
		{{X: 2, Y: 2}, {X: 6, Y: 2}, {X: 6, Y: 6}, {X: 2, Y: 6}},
		{{X: 0, Y: 0}, {X: 4, Y: 0}, {X: 4, Y: 4}, {X: 0, Y: 4}, {X: 0, Y: 0}},
		{{X: 2, Y: 2}, {X: 6, Y: 4}, {X: 2, Y: 6}},
		{{X: 4, Y: 0}, {X: 8, Y: 4}, {X: 4, Y: 8}, {X: 0, Y: 4}},
	}
	for _, ext := range exts[:2] {
		for _, h2 := range second {
			if !tuples(sub, 3, func(p []exact.P) bool {
				if !emit(exact.Shape{K: exact.KPoly, Ext: ext, Holes: [][]exact.P{p, h2}}) {
					return false
				}
				return emit(exact.Shape{K: exact.KPoly, Ext: ext, Holes: [][]exact.P{h2, p}})
			}) {
				return
			}
		}
	}
	// lines
	for _, l := range []int{1, 2, 3} {
		if !tuples(lat4, l, func(p []exact.P) bool { return emit(exact.Shape{K: exact.KLine, Line: p}) }) {
			return
		}
	}
	// rects and points
	for _, a := range lat4 {
		if !emit(exact.Shape{K: exact.KPoint, Pt: a}) {
			return
		}
		for _, b := range lat4 {
			if a.X <= b.X && a.Y <= b.Y {
				if !emit(exact.Shape{K: exact.KRect, Min: a, Max: b}) {
					return
				}
			}
		}
	}
}

func c01Subs() []fw.Sub {
	return []fw.Sub{fw.Prop[c01Case]{
		Name:       "point-membership",
		Exhaustive: "all polygons whose exterior is any vertex sequence of length 3..4 on the even 4x4 lattice (thorough: 3..5, and 3..4 on 5x5), three fixed exteriors x all 3-vertex holes (thorough: 4-vertex too), two exteriors x every 3-vertex hole of a 3x3 sub-lattice paired in both orders with four fixed second holes, all lines of 1..3 positions, all rects and points on that lattice, each against every integer (= half-lattice) point of its box extended by one unit, under index none / R-tree / quadtree",
		Enum:       c01Enum,
		Checks: func(tier string) int {
			if tier == "thorough" {
				return 250000
			}
			return 12000
		},
		Gen:    c01Gen,
		Check:  c01Check,
		Shrink: c01Shrink,
	}}
}

func TestC01(t *testing.T) { fw.Main(t, "C01", c01Subs(), nil) }
