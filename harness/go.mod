module verifharness

go 1.23

require (
	github.com/tidwall/geojson v0.0.0
	pgregory.net/rapid v1.3.0
)

require (
	github.com/tidwall/geoindex v1.4.4 // indirect
	github.com/tidwall/gjson v1.12.1 // indirect
	github.com/tidwall/match v1.1.1 // indirect
	github.com/tidwall/pretty v1.2.0 // indirect
	github.com/tidwall/rtree v1.3.1 // indirect
	github.com/tidwall/sjson v1.2.4 // indirect
)

replace github.com/tidwall/geojson => /repo
