package harness

// C04 — compressed segment indexes are exact accelerators (DESIGN.md §4 C04).

import (
	"encoding/binary"
	"encoding/json"
	"fmt"
	"math"
	"sort"
	"strconv"
	"testing"

	"github.com/tidwall/geojson/geometry"
	"pgregory.net/rapid"
	"verifharness/fw"
)

// F is a float64 whose JSON form also carries infinities.
type F float64

func (f F) MarshalJSON() ([]byte, error) {
	v := float64(f)
	if math.IsInf(v, 1) {
		return []byte(`"+Inf"`), nil
	}
	if math.IsInf(v, -1) {
		return []byte(`"-Inf"`), nil
	}
	if math.IsNaN(v) {
		return []byte(`"NaN"`), nil
	}
	return strconv.AppendFloat(nil, v, 'g', -1, 64), nil
}

func (f *F) UnmarshalJSON(b []byte) error {
	switch string(b) {
	case `"+Inf"`:
		*f = F(math.Inf(1))
	case `"-Inf"`:
		*f = F(math.Inf(-1))
	case `"NaN"`:
		*f = F(math.NaN())
	default:
		v, err := strconv.ParseFloat(string(b), 64)
		if err != nil {
			return err
		}
		*f = F(v)
	}
	return nil
}

type qRect struct {
	MinX F      `json:"minx"`
	MinY F      `json:"miny"`
	MaxX F      `json:"maxx"`
	MaxY F      `json:"maxy"`
	Stop int    `json:"stop"` // the callback returns false on its Stop-th call (0 = never)
	Kind string `json:"kind"`
}

func (q qRect) rect() geometry.Rect {
	return geometry.Rect{Min: geometry.Point{X: float64(q.MinX), Y: float64(q.MinY)}, Max: geometry.Point{X: float64(q.MaxX), Y: float64(q.MaxY)}}
}

type c04Case struct {
	Pts       [][2]float64 `json:"pts,omitempty"` // explicit points (small series)
	Layout    string       `json:"layout,omitempty"`
	N         int          `json:"n,omitempty"`
	Seed      uint64       `json:"seed,omitempty"`
	Closed    bool         `json:"closed"`
	Kind      int          `json:"index_kind"`
	MinPoints int          `json:"min_points"`
	Queries   []qRect      `json:"queries"`
	MoveDX    float64      `json:"move_dx"`
	MoveDY    float64      `json:"move_dy"`
}

type splitmix struct{ s uint64 }

func (r *splitmix) next() uint64 {
	r.s += 0x9E3779B97F4A7C15
	z := r.s
	z = (z ^ (z >> 30)) * 0xBF58476D1CE4E5B9
	z = (z ^ (z >> 27)) * 0x94D049BB133111EB
	return z ^ (z >> 31)
}
func (r *splitmix) unit() float64 { return float64(r.next()>>11) / (1 << 53) }

// expandLayout is a pure function of (layout, n, seed).
func expandLayout(layout string, n int, seed uint64) []geometry.Point {
	r := &splitmix{seed}
	pts := make([]geometry.Point, n)
	switch layout {
	case "uniform":
		for i := range pts {
			pts[i] = geometry.Point{X: r.unit()*2000 - 1000, Y: r.unit()*2000 - 1000}
		}
	case "clustered": // almost everything in one tiny cell, a few far away: deep trees, overflow buckets
		cx, cy := r.unit()*100, r.unit()*100
		for i := range pts {
			if i%997 == 1 {
				pts[i] = geometry.Point{X: r.unit()*1e6 - 5e5, Y: r.unit()*1e6 - 5e5}
			} else {
				pts[i] = geometry.Point{X: cx + r.unit()*1e-9, Y: cy + r.unit()*1e-9}
			}
		}
	case "collinear-h":
		y := r.unit() * 10
		for i := range pts {
			pts[i] = geometry.Point{X: r.unit() * 100, Y: y}
		}
	case "collinear-v":
		x := r.unit() * 10
		for i := range pts {
			pts[i] = geometry.Point{X: x, Y: r.unit() * 100}
		}
	case "diagonal":
		for i := range pts {
			v := r.unit() * 100
			pts[i] = geometry.Point{X: v, Y: v}
		}
	case "identical":
		p := geometry.Point{X: r.unit() * 10, Y: r.unit() * 10}
		for i := range pts {
			pts[i] = p
		}
	case "duplicates":
		var pool [5]geometry.Point
		for i := range pool {
			pool[i] = geometry.Point{X: math.Floor(r.unit() * 8), Y: math.Floor(r.unit() * 8)}
		}
		for i := range pts {
			pts[i] = pool[r.next()%5]
		}
	case "spiral":
		for i := range pts {
			a := float64(i) * 0.1
			pts[i] = geometry.Point{X: a * math.Cos(a), Y: a * math.Sin(a)}
		}
	case "lattice": // small integers: many boxes exactly on quadtree mid-lines
		for i := range pts {
			pts[i] = geometry.Point{X: float64(r.next() % 17), Y: float64(r.next() % 17)}
		}
	case "dyadic": // a closed walk on the k/16 grid of the unit square: every vertex sits on some quad mid-line
		for i := range pts {
			pts[i] = geometry.Point{X: float64(r.next()%17) / 16, Y: float64(r.next()%17) / 16}
		}
	case "wide": // wide exponent range
		for i := range pts {
			pts[i] = geometry.Point{X: math.Ldexp(r.unit()-0.5, int(r.next()%120)-60), Y: math.Ldexp(r.unit()-0.5, int(r.next()%120)-60)}
		}
	case "huge": // finite coordinates near the top of the double range, all on one side of zero: min+max overflows
		for i := range pts {
			pts[i] = geometry.Point{X: 1.4e308 + r.unit()*2e307, Y: 1.4e308 + r.unit()*2e307}
		}
	case "huge-mixed": // both signs: max-min overflows
		for i := range pts {
			pts[i] = geometry.Point{X: (r.unit() - 0.5) * 2 * 1.7e308, Y: (r.unit() - 0.5) * 2 * 1.7e308}
		}
	case "ring": // a closed polygon-like loop (star-shaped), useful for the predicate differential
		for i := range pts {
			a := 2 * math.Pi * float64(i) / float64(n)
			rad := 50 + 30*r.unit()
			pts[i] = geometry.Point{X: rad * math.Cos(a), Y: rad * math.Sin(a)}
		}
	}
	return pts
}

func (c *c04Case) points() []geometry.Point {
	if c.Layout != "" {
		return expandLayout(c.Layout, c.N, c.Seed)
	}
	pts := make([]geometry.Point, len(c.Pts))
	for i, p := range c.Pts {
		pts[i] = geometry.Point{X: p[0], Y: p[1]}
	}
	return pts
}

// modelSegments applies the statement's closing-segment rule.
func modelSegments(pts []geometry.Point, closed bool) []geometry.Segment {
	n := len(pts)
	var out []geometry.Segment
	if closed {
		if n < 3 {
			return nil
		}
		for i := 0; i+1 < n; i++ {
			out = append(out, geometry.Segment{A: pts[i], B: pts[i+1]})
		}
		if pts[n-1] != pts[0] {
			out = append(out, geometry.Segment{A: pts[n-1], B: pts[0]})
		}
		return out
	}
	for i := 0; i+1 < n; i++ {
		out = append(out, geometry.Segment{A: pts[i], B: pts[i+1]})
	}
	return out
}

func segBoxMeets(s geometry.Segment, q geometry.Rect) bool {
	x0, x1 := math.Min(s.A.X, s.B.X), math.Max(s.A.X, s.B.X)
	y0, y1 := math.Min(s.A.Y, s.B.Y), math.Max(s.A.Y, s.B.Y)
	return !(x0 > q.Max.X || x1 < q.Min.X || y0 > q.Max.Y || y1 < q.Min.Y)
}

func buildSeries(pts []geometry.Point, closed bool, kind, minPoints int) geometry.Series {
	opts := &geometry.IndexOptions{Kind: geometry.IndexKind(kind), MinPoints: minPoints}
	if closed {
		return geometry.NewPoly(pts, nil, opts).Exterior
	}
	return geometry.NewLine(pts, opts)
}

type idxStats struct {
	kind      int
	bytes     int
	depth     int
	maxWidth  int
	maxBucket int
}

// decodeIndex reads coverage labels from Index() bytes (format: byte 0 kind, bytes 1-4 length).
// It is used for labels only, never as an oracle.
func decodeIndex(s geometry.Series) (st idxStats) {
	data, ok := s.Index().([]byte)
	if !ok || len(data) < 5 {
		return
	}
	st.kind, st.bytes = int(data[0]), len(data)
	defer func() { recover() }()
	switch data[0] {
	case 2:
		var walk func(addr, depth int)
		walk = func(addr, depth int) {
			if depth > st.depth {
				st.depth = depth
			}
			ib := int(data[addr])
			if ib > st.maxWidth {
				st.maxWidth = ib
			}
			addr++
			var n int
			switch ib {
			case 1:
				n = int(data[addr])
			case 2:
				n = int(binary.LittleEndian.Uint16(data[addr:]))
			default:
				n = int(binary.LittleEndian.Uint32(data[addr:]))
			}
			if n > st.maxBucket {
				st.maxBucket = n
			}
			addr += ib + n*ib
			if data[addr] != 1 {
				return
			}
			addr++
			for q := 0; q < 4; q++ {
				use := data[addr] == 1
				addr++
				if use {
					walk(int(binary.LittleEndian.Uint32(data[addr:])), depth+1)
					addr += 4
				}
			}
		}
		walk(5, 0)
	case 1:
		if len(data) == 5 {
			return
		}
		st.depth = int(data[5])
		var walk func(addr, height int)
		walk = func(addr, height int) {
			addr += 32
			count := int(data[addr])
			addr++
			if height == 0 {
				if int(data[addr]) > st.maxWidth {
					st.maxWidth = int(data[addr])
				}
				if count > st.maxBucket {
					st.maxBucket = count
				}
				return
			}
			for i := 0; i < count; i++ {
				walk(int(binary.LittleEndian.Uint32(data[addr:])), height-1)
				addr += 4
			}
		}
		walk(6, st.depth)
	}
	return
}

func sizeClass(n int) string {
	switch {
	case n <= 4:
		return "n<=4"
	case n <= 70:
		return "n<=70"
	case n <= 300:
		return "n<=300"
	case n <= 2000:
		return "n<=2000"
	case n <= 66000:
		return "n~65536"
	}
	return "n>66000"
}

func searchOnce(s geometry.Series, q qRect) (idx []int, segs []geometry.Segment, calls int) {
	s.Search(q.rect(), func(seg geometry.Segment, i int) bool {
		calls++
		idx = append(idx, i)
		segs = append(segs, seg)
		return q.Stop == 0 || calls < q.Stop
	})
	return
}

func c04Check(c c04Case) fw.Outcome {
	pts := c.points()
	model := modelSegments(pts, c.Closed)
	s := buildSeries(pts, c.Closed, c.Kind, c.MinPoints)
	st := decodeIndex(s)
	layout := c.Layout
	if layout == "" {
		layout = "explicit"
	}
	kindName := []string{"none", "rtree", "quadtree"}[st.kind]
	out := fw.Outcome{LabelCounts: map[string]int64{}, Keys: []uint64{}}
	hb, _ := json.Marshal(struct {
		P [][2]float64
		L string
		N int
		S uint64
		C bool
		K int
		M int
	}{c.Pts, c.Layout, c.N, c.Seed, c.Closed, c.Kind, c.MinPoints})
	base := fnvBytes(hb)
	if s.NumSegments() != len(model) {
		return fw.Failf("segments", "NumSegments = %d, statement's rule gives %d (n=%d closed=%v)", s.NumSegments(), len(model), len(pts), c.Closed)
	}
	// moved copy: must answer like an index-free series on the pre-added coordinates
	var moved, movedRef geometry.Series
	mpts := make([]geometry.Point, len(pts))
	for i, p := range pts {
		mpts[i] = geometry.Point{X: p.X + c.MoveDX, Y: p.Y + c.MoveDY}
	}
	if c.Closed {
		moved = geometry.NewPoly(pts, nil, &geometry.IndexOptions{Kind: geometry.IndexKind(c.Kind), MinPoints: c.MinPoints}).Move(c.MoveDX, c.MoveDY).Exterior
	} else {
		moved = geometry.NewLine(pts, &geometry.IndexOptions{Kind: geometry.IndexKind(c.Kind), MinPoints: c.MinPoints}).Move(c.MoveDX, c.MoveDY)
	}
	movedRef = buildSeries(mpts, c.Closed, 0, 0)
	movedModel := modelSegments(mpts, c.Closed)
	for qi, q := range c.Queries {
		qr := q.rect()
		var want []int
		for i, sg := range model {
			if segBoxMeets(sg, qr) {
				want = append(want, i)
			}
		}
		label := fmt.Sprintf("%s/%s/%s/%s", kindName, sizeClass(len(pts)), layout, q.Kind)
		out.Evals++
		out.LabelCounts[label]++
		if st.kind != 0 && len(want) > 0 && len(want) < len(model) {
			out.Keys = append(out.Keys, base^uint64(qi+1)*0x9E3779B97F4A7C15)
		}
		full := q
		full.Stop = 0
		idx, segs, _ := searchOnce(s, full)
		for k, i := range idx {
			if i < 0 || i >= len(model) {
				return fw.Failf(label, "Search reported position index %d, series has %d segments; query %+v", i, len(model), q)
			}
			if segs[k] != model[i] {
				return fw.Failf(label, "Search reported segment %v at index %d, the series' segment %d is %v; query %+v", segs[k], i, i, model[i], q)
			}
		}
		got := append([]int{}, idx...)
		sort.Ints(got)
		if !equalInts(got, want) {
			return fw.Failf(label, "Search(%+v) reported %d segments %v, brute force over the model gives %d %v (index %s, n=%d, closed=%v)",
				q, len(got), clip(got), len(want), clip(want), kindName, len(pts), c.Closed)
		}
		if q.Stop > 0 {
			_, _, calls := searchOnce(s, q)
			wantCalls := q.Stop
			if len(want) < wantCalls {
				wantCalls = len(want)
			}
			if calls != wantCalls {
				return fw.Failf(label, "callback returned false on call %d but %d calls were made (%d hits); query %+v", q.Stop, calls, len(want), q)
			}
		}
		// moved series against the moved query
		mq := q
		mq.Stop = 0
		mq.MinX, mq.MaxX = F(float64(q.MinX)+c.MoveDX), F(float64(q.MaxX)+c.MoveDX)
		mq.MinY, mq.MaxY = F(float64(q.MinY)+c.MoveDY), F(float64(q.MaxY)+c.MoveDY)
		mi, ms, _ := searchOnce(moved, mq)
		ri, _, _ := searchOnce(movedRef, mq)
		sort.Ints(ri)
		for k, i := range mi {
			if i < 0 || i >= len(movedModel) || ms[k] != movedModel[i] {
				return fw.Failf(label+"/move", "moved series reported segment %v at index %d, want the moved model segment; Move(%g,%g)", ms[k], i, c.MoveDX, c.MoveDY)
			}
		}
		sort.Ints(mi)
		if !equalInts(mi, ri) {
			return fw.Failf(label+"/move", "after Move(%g,%g) Search(%+v) reported %v, an index-free series on the moved coordinates reports %v", c.MoveDX, c.MoveDY, mq, clip(mi), clip(ri))
		}
	}
	// predicate differential across index kinds (arbitrary doubles allowed)
	if o := c04Predicates(&c, pts, layout); o.Fail != "" {
		return o
	}
	out.LabelCounts[fmt.Sprintf("index/%s/width%d/depth%d/bucket<=%s", kindName, st.maxWidth, min(st.depth, 16), bucketClass(st.maxBucket))]++
	return out
}

func bucketClass(n int) string {
	switch {
	case n <= 32:
		return "32"
	case n <= 255:
		return "255"
	case n <= 65535:
		return "65535"
	}
	return "more"
}

func fnvBytes(b []byte) uint64 {
	h := uint64(14695981039346656037)
	for _, c := range b {
		h ^= uint64(c)
		h *= 1099511628211
	}
	return h
}

func clip(a []int) []int {
	if len(a) > 12 {
		return a[:12]
	}
	return a
}

func equalInts(a, b []int) bool {
	if len(a) != len(b) {
		return false
	}
	for i := range a {
		if a[i] != b[i] {
			return false
		}
	}
	return true
}

// c04Predicates: every geometry predicate gives the same answer under every index configuration.
func c04Predicates(c *c04Case, pts []geometry.Point, layout string) fw.Outcome {
	if len(pts) > 3000 && c.Seed%8 != 0 {
		return fw.Outcome{}
	}
	// the predicates multiply coordinate differences: where those products overflow (|x| > 1e150) their answers
	// depend on the order in which segments are visited, which no index promises; only the search itself is
	// asserted there (DESIGN.md §7)
	for _, p := range pts {
		if math.Abs(p.X) > 1e150 || math.Abs(p.Y) > 1e150 {
			return fw.Outcome{}
		}
	}
	cfgs := []*geometry.IndexOptions{{Kind: geometry.None}, {Kind: geometry.RTree, MinPoints: 1}, {Kind: geometry.QuadTree, MinPoints: 1},
		{Kind: geometry.IndexKind(c.Kind), MinPoints: c.MinPoints}}
	// probes derived from the queries and the points
	var probesP []geometry.Point
	var probesR []geometry.Rect
	for _, q := range c.Queries {
		r := q.rect()
		if math.IsInf(r.Min.X, 0) || math.IsInf(r.Max.X, 0) || math.IsInf(r.Min.Y, 0) || math.IsInf(r.Max.Y, 0) {
			continue
		}
		probesR = append(probesR, r)
		probesP = append(probesP, r.Min, r.Max, geometry.Point{X: (r.Min.X + r.Max.X) / 2, Y: (r.Min.Y + r.Max.Y) / 2})
	}
	for i := 0; i < len(pts) && i < 6; i++ {
		p := pts[(i*7919)%len(pts)]
		probesP = append(probesP, p)
		q := pts[(i*104729+1)%len(pts)]
		probesP = append(probesP, geometry.Point{X: (p.X + q.X) / 2, Y: (p.Y + q.Y) / 2})
	}
	finite := probesP[:0:0]
	for _, p := range probesP {
		if !math.IsInf(p.X, 0) && !math.IsInf(p.Y, 0) && !math.IsNaN(p.X) && !math.IsNaN(p.Y) {
			finite = append(finite, p)
		}
	}
	probesP = finite
	var probeLines []*geometry.Line
	for i := 0; i+1 < len(probesP) && i < 12; i += 2 {
		probeLines = append(probeLines, geometry.NewLine([]geometry.Point{probesP[i], probesP[i+1]}, nil))
	}
	if len(pts) >= 2 {
		k := min(len(pts), 5)
		probeLines = append(probeLines, geometry.NewLine(pts[:k], nil), geometry.NewLine(pts[len(pts)-k:], nil))
	}
	type ans struct {
		name string
		v    bool
	}
	eval := func(o *geometry.IndexOptions) []ans {
		var out []ans
		var g geometry.Geometry
		if c.Closed {
			g = geometry.NewPoly(pts, nil, o)
		} else {
			g = geometry.NewLine(pts, o)
		}
		for i, p := range probesP {
			out = append(out, ans{fmt.Sprintf("ContainsPoint(probe %d %v)", i, p), g.ContainsPoint(p)})
		}
		for i, r := range probesR {
			out = append(out, ans{fmt.Sprintf("IntersectsRect(probe %d %v)", i, r), g.IntersectsRect(r)})
			out = append(out, ans{fmt.Sprintf("ContainsRect(probe %d %v)", i, r), g.ContainsRect(r)})
		}
		for i, l := range probeLines {
			out = append(out, ans{fmt.Sprintf("IntersectsLine(probe line %d)", i), g.IntersectsLine(l)})
			out = append(out, ans{fmt.Sprintf("ContainsLine(probe line %d)", i), g.ContainsLine(l)})
			out = append(out, ans{fmt.Sprintf("probe line %d .IntersectsX(g)", i), c04Rev(l, g)})
		}
		return out
	}
	ref := eval(cfgs[0])
	for _, o := range cfgs[1:] {
		got := eval(o)
		for i := range ref {
			if got[i].v != ref[i].v {
				return fw.Failf("predicate-differential", "%s = %v without index, %v with index %s/MinPoints %d (layout %s, n=%d, closed=%v)",
					ref[i].name, ref[i].v, got[i].v, o.Kind, o.MinPoints, layout, len(pts), c.Closed)
			}
		}
	}
	return fw.Outcome{}
}

func c04Rev(l *geometry.Line, g geometry.Geometry) bool {
	switch v := g.(type) {
	case *geometry.Line:
		return l.IntersectsLine(v)
	case *geometry.Poly:
		return l.IntersectsPoly(v)
	}
	return false
}

var c04Layouts = []string{"dyadic", "lattice", "huge", "huge-mixed", "uniform", "clustered", "collinear-h", "collinear-v", "diagonal", "identical", "duplicates", "spiral", "lattice", "wide", "ring"}

func c04Sizes(tier string) []int {
	s := []int{0, 1, 2, 3, 4, 5, 31, 32, 33, 34, 63, 64, 65, 254, 255, 256, 257, 258, 1000}
	return s
}

var c04BigSizes = []int{65534, 65535, 65536, 65537, 65538, 70000}

// genQueries draws query rectangles for a point set.
func genQueries(t *rapid.T, pts []geometry.Point, closed bool, nq int) []qRect {
	model := modelSegments(pts, closed)
	box := geometry.Rect{}
	if len(pts) > 0 {
		box = geometry.Rect{Min: pts[0], Max: pts[0]}
		for _, p := range pts {
			box.Min.X, box.Min.Y = math.Min(box.Min.X, p.X), math.Min(box.Min.Y, p.Y)
			box.Max.X, box.Max.Y = math.Max(box.Max.X, p.X), math.Max(box.Max.Y, p.Y)
		}
	}
	inf := math.Inf(1)
	coord := func(lo, hi float64, label string) float64 {
		if !(hi > lo) {
			return lo + rapid.Float64Range(-1, 1).Draw(t, label)
		}
		w := hi - lo
		if math.IsInf(w, 0) || math.IsInf(lo-w*0.1, 0) || math.IsInf(hi+w*0.1, 0) {
			return rapid.Float64Range(lo, hi).Draw(t, label)
		}
		return rapid.Float64Range(lo-w*0.1, hi+w*0.1).Draw(t, label)
	}
	midline := func(lo, hi float64, label string) float64 {
		d := rapid.IntRange(1, 18).Draw(t, label+"d")
		for i := 0; i < d; i++ {
			m := (lo + hi) / 2
			if rapid.Bool().Draw(t, label+"s") {
				hi = m
			} else {
				lo = m
			}
		}
		return (lo + hi) / 2
	}
	var out []qRect
	for i := 0; i < nq; i++ {
		var q qRect
		m := rapid.IntRange(0, 7).Draw(t, "qkind")
		switch {
		case m == 0 && len(pts) > 0: // degenerate point at a vertex
			p := pts[rapid.IntRange(0, len(pts)-1).Draw(t, "qi")]
			q = qRect{F(p.X), F(p.Y), F(p.X), F(p.Y), 0, "vertex-point"}
		case m == 1 && len(pts) > 0: // the infinite horizontal strip ringContainsPoint uses
			p := pts[rapid.IntRange(0, len(pts)-1).Draw(t, "qi")]
			y := p.Y
			if rapid.Bool().Draw(t, "qoff") {
				y = coord(box.Min.Y, box.Max.Y, "qy")
			}
			q = qRect{F(-inf), F(y), F(inf), F(y), 0, "infinite-strip"}
		case m == 2:
			q = qRect{F(-inf), F(-inf), F(inf), F(inf), 0, "whole-plane"}
		case m == 3: // edges exactly on quadtree mid-lines
			x0, x1 := midline(box.Min.X, box.Max.X, "mx0"), midline(box.Min.X, box.Max.X, "mx1")
			y0, y1 := midline(box.Min.Y, box.Max.Y, "my0"), midline(box.Min.Y, box.Max.Y, "my1")
			q = qRect{F(math.Min(x0, x1)), F(math.Min(y0, y1)), F(math.Max(x0, x1)), F(math.Max(y0, y1)), 0, "on-midlines"}
		case m == 4 && len(model) > 0: // touching a segment box exactly
			sg := model[rapid.IntRange(0, len(model)-1).Draw(t, "qs")]
			x0, x1 := math.Min(sg.A.X, sg.B.X), math.Max(sg.A.X, sg.B.X)
			y0, y1 := math.Min(sg.A.Y, sg.B.Y), math.Max(sg.A.Y, sg.B.Y)
			switch rapid.IntRange(0, 3).Draw(t, "qside") {
			case 0:
				q = qRect{F(x1), F(y0), F(x1 + math.Abs(x1) + 1), F(y1), 0, "touch-segment-box"}
			case 1:
				q = qRect{F(x0 - math.Abs(x0) - 1), F(y0), F(x0), F(y1), 0, "touch-segment-box"}
			case 2:
				q = qRect{F(x0), F(y1), F(x1), F(y1 + math.Abs(y1) + 1), 0, "touch-segment-box"}
			default:
				q = qRect{F(x0), F(y0 - math.Abs(y0) - 1), F(x1), F(y0), 0, "touch-segment-box"}
			}
		case m == 5: // half-plane
			x := coord(box.Min.X, box.Max.X, "qx")
			q = qRect{F(x), F(-inf), F(inf), F(inf), 0, "half-plane"}
		default:
			x0, x1 := coord(box.Min.X, box.Max.X, "qx0"), coord(box.Min.X, box.Max.X, "qx1")
			y0, y1 := coord(box.Min.Y, box.Max.Y, "qy0"), coord(box.Min.Y, box.Max.Y, "qy1")
			if rapid.Bool().Draw(t, "qsmall") {
				w := (box.Max.X - box.Min.X) * 0.01
				h := (box.Max.Y - box.Min.Y) * 0.01
				x1, y1 = x0+w, y0+h
			}
			q = qRect{F(math.Min(x0, x1)), F(math.Min(y0, y1)), F(math.Max(x0, x1)), F(math.Max(y0, y1)), 0, "random"}
		}
		if rapid.IntRange(0, 2).Draw(t, "qstopm") == 0 {
			q.Stop = rapid.IntRange(1, 40).Draw(t, "qstop")
		}
		out = append(out, q)
	}
	return out
}

func c04GenSmall(t *rapid.T) c04Case {
	c := c04Case{Closed: rapid.Bool().Draw(t, "closed"), Kind: rapid.IntRange(1, 2).Draw(t, "kind")}
	if rapid.IntRange(0, 2).Draw(t, "explicit") == 0 {
		n := rapid.IntRange(0, 40).Draw(t, "n")
		for i := 0; i < n; i++ {
			var x, y float64
			if rapid.Bool().Draw(t, "int") {
				x, y = float64(rapid.IntRange(-4, 4).Draw(t, "x")), float64(rapid.IntRange(-4, 4).Draw(t, "y"))
			} else {
				x, y = rapid.Float64Range(-1e3, 1e3).Draw(t, "x"), rapid.Float64Range(-1e3, 1e3).Draw(t, "y")
			}
			c.Pts = append(c.Pts, [2]float64{x, y})
		}
		if c.Closed && n > 0 && rapid.Bool().Draw(t, "repeat") {
			c.Pts = append(c.Pts, c.Pts[0])
		}
	} else {
		c.Layout = rapid.SampledFrom(c04Layouts).Draw(t, "layout")
		c.N = rapid.SampledFrom(c04Sizes("")).Draw(t, "n")
		c.Seed = rapid.Uint64().Draw(t, "seed")
	}
	n := len(c.points())
	c.MinPoints = rapid.SampledFrom([]int{1, 1, n, n + 1, 64, -1}).Draw(t, "minpoints")
	c.MoveDX = float64(rapid.IntRange(-8, 8).Draw(t, "mdx"))
	if rapid.Bool().Draw(t, "mdxinexact") {
		c.MoveDX = rapid.SampledFrom([]float64{0.1, -0.3, 1e-3, 0.7, 12.345}).Draw(t, "mdxf")
	}
	c.MoveDY = rapid.Float64Range(-100, 100).Draw(t, "mdy")
	if rapid.IntRange(0, 2).Draw(t, "mdysimple") == 0 {
		c.MoveDY = rapid.SampledFrom([]float64{0.1, 0, -0.3, 0.7, 5}).Draw(t, "mdyf")
	}
	c.Queries = genQueries(t, c.points(), c.Closed, rapid.IntRange(4, 30).Draw(t, "nq"))
	return c
}

func c04GenBig(t *rapid.T) c04Case {
	c := c04Case{Closed: rapid.Bool().Draw(t, "closed"), Kind: rapid.IntRange(1, 2).Draw(t, "kind")}
	c.Layout = rapid.SampledFrom(c04Layouts).Draw(t, "layout")
	c.N = rapid.SampledFrom(c04BigSizes).Draw(t, "n")
	if rapid.IntRange(0, 9).Draw(t, "huge") == 0 {
		c.N = 200000
	}
	c.Seed = rapid.Uint64().Draw(t, "seed")
	c.MinPoints = rapid.SampledFrom([]int{1, 64, c.N}).Draw(t, "minpoints")
	c.MoveDX = float64(rapid.IntRange(-8, 8).Draw(t, "mdx"))
	c.MoveDY = rapid.Float64Range(-100, 100).Draw(t, "mdy")
	c.Queries = genQueries(t, c.points(), c.Closed, rapid.IntRange(8, 20).Draw(t, "nq"))
	return c
}

func c04Shrink(c c04Case) []c04Case {
	var out []c04Case
	if len(c.Queries) > 1 {
		for i := range c.Queries {
			d := c
			d.Queries = []qRect{c.Queries[i]}
			out = append(out, d)
		}
		return out
	}
	if c.Layout != "" && c.N <= 400 {
		d := c
		pts := c.points()
		d.Layout, d.N, d.Seed = "", 0, 0
		for _, p := range pts {
			d.Pts = append(d.Pts, [2]float64{p.X, p.Y})
		}
		out = append(out, d)
		return out
	}
	if c.Layout != "" && c.N > 4 {
		for _, n := range []int{c.N / 2, c.N - 1} {
			d := c
			d.N = n
			out = append(out, d)
		}
	}
	for i := range c.Pts {
		d := c
		d.Pts = append(append([][2]float64{}, c.Pts[:i]...), c.Pts[i+1:]...)
		out = append(out, d)
	}
	return out
}

func c04Subs() []fw.Sub {
	return []fw.Sub{
		fw.Prop[c04Case]{
			Name: "search-small",
			Checks: func(tier string) int {
				if tier == "thorough" {
					return 8000
				}
				return 900
			},
			Gen: c04GenSmall, Check: c04Check, Shrink: c04Shrink,
		},
		fw.Prop[c04Case]{
			Name: "search-big",
			Checks: func(tier string) int {
				if tier == "thorough" {
					return 60
				}
				return 4
			},
			Gen: c04GenBig, Check: c04Check, Shrink: c04Shrink,
		},
	}
}

func TestC04(t *testing.T) { fw.Main(t, "C04", c04Subs(), nil) }
