// Package exact is the independent planar oracle (DESIGN.md §3.1): shapes on an
// integer lattice, integer orientation tests on lattice points, math/big.Rat on
// derived points, witness-producing contains / intersects.  It shares no code
// with the library under test.
package exact

import (
	"fmt"
	"math/big"
	"sort"
)

// P is a lattice point.
type P struct {
	X int64 `json:"x"`
	Y int64 `json:"y"`
}

func (p P) String() string { return fmt.Sprintf("(%d,%d)", p.X, p.Y) }

// Kind of a shape.
type Kind int

const (
	KPoint Kind = iota
	KRect
	KLine
	KPoly
)

var KindNames = []string{"point", "rect", "line", "poly"}

func (k Kind) String() string { return KindNames[k] }

// Shape is the model of one geometry, independent of the library.
type Shape struct {
	K     Kind  `json:"k"`
	Pt    P     `json:"pt,omitempty"`
	Min   P     `json:"min,omitempty"`
	Max   P     `json:"max,omitempty"`
	Line  []P   `json:"line,omitempty"`
	Ext   []P   `json:"ext,omitempty"`
	Holes [][]P `json:"holes,omitempty"`
}

func (s *Shape) String() string {
	switch s.K {
	case KPoint:
		return "Point" + s.Pt.String()
	case KRect:
		return "Rect[" + s.Min.String() + "-" + s.Max.String() + "]"
	case KLine:
		return "Line" + fmt.Sprint(s.Line)
	}
	if len(s.Holes) > 0 {
		return "Poly" + fmt.Sprint(s.Ext) + " holes" + fmt.Sprint(s.Holes)
	}
	return "Poly" + fmt.Sprint(s.Ext)
}

// Q is a rational point; lattice points keep an integer fast path.
type Q struct {
	Lat  bool
	L    P
	X, Y *big.Rat
}

func Lat(p P) Q { return Q{Lat: true, L: p} }

func (q Q) rx() *big.Rat {
	if q.Lat {
		return new(big.Rat).SetInt64(q.L.X)
	}
	return q.X
}
func (q Q) ry() *big.Rat {
	if q.Lat {
		return new(big.Rat).SetInt64(q.L.Y)
	}
	return q.Y
}

func (q Q) String() string {
	if q.Lat {
		return q.L.String()
	}
	return "(" + q.X.RatString() + "," + q.Y.RatString() + ")"
}

// Float returns the nearest float64 coordinates (for reports only).
func (q Q) Float() (float64, float64) {
	x, _ := q.rx().Float64()
	y, _ := q.ry().Float64()
	return x, y
}

func norm(x, y *big.Rat) Q {
	if x.IsInt() && y.IsInt() && x.Num().IsInt64() && y.Num().IsInt64() {
		return Lat(P{x.Num().Int64(), y.Num().Int64()})
	}
	return Q{X: x, Y: y}
}

// Seg is a lattice segment.
type Seg struct{ A, B P }

func (s Seg) String() string { return s.A.String() + "-" + s.B.String() }

// Orient is the sign of (b-a)x(c-a) for lattice points: +1 left turn, -1 right turn, 0 collinear.
func Orient(a, b, c P) int {
	v := (b.X-a.X)*(c.Y-a.Y) - (b.Y-a.Y)*(c.X-a.X)
	switch {
	case v > 0:
		return 1
	case v < 0:
		return -1
	}
	return 0
}

func orientQ(a, b P, c Q) int {
	if c.Lat {
		return Orient(a, b, c.L)
	}
	l := new(big.Rat).Sub(c.Y, new(big.Rat).SetInt64(a.Y))
	l.Mul(l, new(big.Rat).SetInt64(b.X-a.X))
	r := new(big.Rat).Sub(c.X, new(big.Rat).SetInt64(a.X))
	r.Mul(r, new(big.Rat).SetInt64(b.Y-a.Y))
	return l.Cmp(r)
}

func cmpRI(r *big.Rat, i int64) int { return r.Cmp(new(big.Rat).SetInt64(i)) }

func betweenI(a, b, c int64) bool {
	if a > b {
		a, b = b, a
	}
	return a <= c && c <= b
}

func betweenQ(a, b int64, c *big.Rat) bool {
	if a > b {
		a, b = b, a
	}
	return cmpRI(c, a) >= 0 && cmpRI(c, b) <= 0
}

// OnSeg reports whether q lies on the closed segment s.
func OnSeg(s Seg, q Q) bool {
	if q.Lat {
		p := q.L
		return Orient(s.A, s.B, p) == 0 && betweenI(s.A.X, s.B.X, p.X) && betweenI(s.A.Y, s.B.Y, p.Y)
	}
	if orientQ(s.A, s.B, q) != 0 {
		return false
	}
	return betweenQ(s.A.X, s.B.X, q.X) && betweenQ(s.A.Y, s.B.Y, q.Y)
}

// RingEdges returns the segments of a closed ring under the statement's rule:
// fewer than three positions give none; an implicit closing segment exists
// exactly when the last position differs from the first.
func RingEdges(pts []P) []Seg {
	n := len(pts)
	if n < 3 {
		return nil
	}
	var out []Seg
	if pts[0] == pts[n-1] {
		for i := 0; i < n-1; i++ {
			out = append(out, Seg{pts[i], pts[i+1]})
		}
	} else {
		for i := 0; i < n; i++ {
			out = append(out, Seg{pts[i], pts[(i+1)%n]})
		}
	}
	return out
}

// LineEdges returns the segments of an open series.
func LineEdges(pts []P) []Seg {
	var out []Seg
	for i := 0; i+1 < len(pts); i++ {
		out = append(out, Seg{pts[i], pts[i+1]})
	}
	return out
}

func cmpYQ(y int64, q Q) int { // sign(y - q.y)
	if q.Lat {
		switch {
		case y < q.L.Y:
			return -1
		case y > q.L.Y:
			return 1
		}
		return 0
	}
	return -cmpRI(q.Y, y)
}

// PointInRing returns (odd crossing parity, on boundary) of q against the edges,
// with the half-open rule of the statement: an endpoint level with the point
// counts as below it.  Well defined for any vertex sequence.
func PointInRing(edges []Seg, q Q) (in bool, on bool) {
	for _, e := range edges {
		if OnSeg(e, q) {
			return false, true
		}
		aBelow := cmpYQ(e.A.Y, q) <= 0
		bBelow := cmpYQ(e.B.Y, q) <= 0
		if aBelow == bBelow {
			continue
		}
		lo, hi := e.A, e.B
		if !aBelow {
			lo, hi = e.B, e.A
		}
		// the rightward ray from q crosses iff q is strictly left of lo->hi
		if orientQ(lo, hi, q) > 0 {
			in = !in
		}
	}
	return in, false
}

// WindingNonZero is an independent cross-check of PointInRing for simple rings.
func WindingNonZero(edges []Seg, q Q) (inside bool, on bool) {
	w := 0
	for _, e := range edges {
		if OnSeg(e, q) {
			return false, true
		}
		if cmpYQ(e.A.Y, q) <= 0 {
			if cmpYQ(e.B.Y, q) > 0 && orientQ(e.A, e.B, q) > 0 {
				w++
			}
		} else if cmpYQ(e.B.Y, q) <= 0 && orientQ(e.A, e.B, q) < 0 {
			w--
		}
	}
	return w != 0, false
}

// Empty follows the statement of C11: a line needs two positions, a polygon three.
func (s *Shape) Empty() bool {
	switch s.K {
	case KLine:
		return len(s.Line) < 2
	case KPoly:
		return len(s.Ext) < 3
	}
	return false
}

// Boundary returns the segments on which membership along a straight path can change.
func (s *Shape) Boundary() []Seg {
	switch s.K {
	case KPoint:
		return []Seg{{s.Pt, s.Pt}}
	case KRect:
		a, b, c, d := P{s.Min.X, s.Min.Y}, P{s.Max.X, s.Min.Y}, P{s.Max.X, s.Max.Y}, P{s.Min.X, s.Max.Y}
		return []Seg{{a, b}, {b, c}, {c, d}, {d, a}}
	case KLine:
		return LineEdges(s.Line)
	case KPoly:
		out := RingEdges(s.Ext)
		for _, h := range s.Holes {
			out = append(out, RingEdges(h)...)
		}
		return out
	}
	return nil
}

// Member is exact membership of q in the closed point set of s.
func (s *Shape) Member(q Q) bool {
	switch s.K {
	case KPoint:
		return q.Lat && q.L == s.Pt
	case KRect:
		if q.Lat {
			return betweenI(s.Min.X, s.Max.X, q.L.X) && betweenI(s.Min.Y, s.Max.Y, q.L.Y)
		}
		return betweenQ(s.Min.X, s.Max.X, q.X) && betweenQ(s.Min.Y, s.Max.Y, q.Y)
	case KLine:
		for _, e := range LineEdges(s.Line) {
			if OnSeg(e, q) {
				return true
			}
		}
		return false
	case KPoly:
		in, on := PointInRing(RingEdges(s.Ext), q)
		if !in && !on {
			return false
		}
		for _, h := range s.Holes {
			hin, hon := PointInRing(RingEdges(h), q)
			if hin && !hon {
				return false
			}
		}
		return true
	}
	return false
}

// HasArea reports whether the shape has positive area (valid shapes only).
func (s *Shape) HasArea() bool {
	switch s.K {
	case KRect:
		return s.Min.X != s.Max.X && s.Min.Y != s.Max.Y
	case KPoly:
		return !s.Empty()
	}
	return false
}

// Box is the bounding box of the shape's positions (ok=false when it has none).
func (s *Shape) Box() (min, max P, ok bool) {
	var pts []P
	switch s.K {
	case KPoint:
		pts = []P{s.Pt}
	case KRect:
		pts = []P{s.Min, s.Max}
	case KLine:
		pts = s.Line
	case KPoly:
		pts = s.Ext
	}
	if len(pts) == 0 {
		return
	}
	min, max = pts[0], pts[0]
	for _, p := range pts {
		if p.X < min.X {
			min.X = p.X
		}
		if p.X > max.X {
			max.X = p.X
		}
		if p.Y < min.Y {
			min.Y = p.Y
		}
		if p.Y > max.Y {
			max.Y = p.Y
		}
	}
	return min, max, true
}

// param returns the parameter of q (known to be on the line of S) along S, S non-degenerate.
func param(S Seg, q Q) *big.Rat {
	dx, dy := S.B.X-S.A.X, S.B.Y-S.A.Y
	if dx != 0 {
		t := new(big.Rat).Sub(q.rx(), new(big.Rat).SetInt64(S.A.X))
		return t.Quo(t, new(big.Rat).SetInt64(dx))
	}
	t := new(big.Rat).Sub(q.ry(), new(big.Rat).SetInt64(S.A.Y))
	return t.Quo(t, new(big.Rat).SetInt64(dy))
}

// crossParam returns the parameter along S of the intersection of the lines of S and e (not parallel).
func crossParam(S, e Seg) *big.Rat {
	dx, dy := S.B.X-S.A.X, S.B.Y-S.A.Y
	ex, ey := e.B.X-e.A.X, e.B.Y-e.A.Y
	den := big.NewInt(0).Sub(mulI(dx, ey), mulI(dy, ex))
	wx, wy := e.A.X-S.A.X, e.A.Y-S.A.Y
	num := big.NewInt(0).Sub(mulI(wx, ey), mulI(wy, ex))
	return new(big.Rat).SetFrac(num, den)
}

func mulI(a, b int64) *big.Int { return new(big.Int).Mul(big.NewInt(a), big.NewInt(b)) }

// At returns the point A + t(B-A).
func At(S Seg, t *big.Rat) Q {
	x := new(big.Rat).SetInt64(S.B.X - S.A.X)
	x.Mul(x, t)
	x.Add(x, new(big.Rat).SetInt64(S.A.X))
	y := new(big.Rat).SetInt64(S.B.Y - S.A.Y)
	y.Mul(y, t)
	y.Add(y, new(big.Rat).SetInt64(S.A.Y))
	return norm(x, y)
}

// contactParams appends the parameters along S of the contacts of S with e:
// endpoints of e on the line of S, and a proper crossing of the two lines.
func contactParams(S, e Seg, ts []*big.Rat) []*big.Rat {
	oa, ob := Orient(S.A, S.B, e.A), Orient(S.A, S.B, e.B)
	if oa == 0 {
		ts = append(ts, param(S, Lat(e.A)))
	}
	if ob == 0 {
		ts = append(ts, param(S, Lat(e.B)))
	}
	if oa*ob < 0 {
		ts = append(ts, crossParam(S, e))
	}
	return ts
}

var (
	ratZero = new(big.Rat)
	ratOne  = big.NewRat(1, 1)
	ratHalf = big.NewRat(1, 2)
)

// SegSubset decides whether the closed segment S is a subset of A; if not it
// returns a point of S outside A.  Between two consecutive contacts with A's
// boundary membership is constant, so testing every breakpoint and every
// midpoint is exact.
func SegSubset(S Seg, A *Shape) (bool, *Q) {
	if S.A == S.B {
		q := Lat(S.A)
		if A.Member(q) {
			return true, nil
		}
		return false, &q
	}
	ts := []*big.Rat{ratZero, ratOne}
	for _, e := range A.Boundary() {
		ts = contactParams(S, e, ts)
	}
	in := ts[:0:0]
	for _, t := range ts {
		if t.Sign() >= 0 && t.Cmp(ratOne) <= 0 {
			in = append(in, t)
		}
	}
	sort.Slice(in, func(i, j int) bool { return in[i].Cmp(in[j]) < 0 })
	uniq := in[:0]
	for i, t := range in {
		if i == 0 || in[i-1].Cmp(t) != 0 {
			uniq = append(uniq, t)
		}
	}
	for i, t := range uniq {
		p := At(S, t)
		if !A.Member(p) {
			return false, &p
		}
		if i+1 < len(uniq) {
			m := new(big.Rat).Add(t, uniq[i+1])
			m.Mul(m, ratHalf)
			q := At(S, m)
			if !A.Member(q) {
				return false, &q
			}
		}
	}
	return true, nil
}

// InteriorPoint returns a point strictly inside a simple ring: the midpoint of
// the first two crossings of a scan line that passes through no vertex.
func InteriorPoint(pts []P) Q {
	edges := RingEdges(pts)
	ys := map[int64]bool{}
	for _, p := range pts {
		ys[p.Y] = true
	}
	var yl []int64
	for y := range ys {
		yl = append(yl, y)
	}
	sort.Slice(yl, func(i, j int) bool { return yl[i] < yl[j] })
	y := big.NewRat(yl[0]+yl[1], 2)
	var xs []*big.Rat
	for _, e := range edges {
		if e.A.Y == e.B.Y {
			continue
		}
		if betweenQ(e.A.Y, e.B.Y, y) {
			t := new(big.Rat).Sub(y, new(big.Rat).SetInt64(e.A.Y))
			t.Quo(t, new(big.Rat).SetInt64(e.B.Y-e.A.Y))
			x := new(big.Rat).SetInt64(e.B.X - e.A.X)
			x.Mul(x, t)
			x.Add(x, new(big.Rat).SetInt64(e.A.X))
			xs = append(xs, x)
		}
	}
	sort.Slice(xs, func(i, j int) bool { return xs[i].Cmp(xs[j]) < 0 })
	mx := new(big.Rat).Add(xs[0], xs[1])
	mx.Mul(mx, ratHalf)
	return norm(mx, y)
}

// Contains decides whether every point of B belongs to A (B non-empty).  When
// the answer is false and a witness exists it is a point of B outside A.
// Shapes are assumed valid (simple rings, holes inside the exterior).
func Contains(A, B *Shape) (bool, *Q) {
	if A.Empty() || B.Empty() {
		return false, nil
	}
	for _, e := range B.Boundary() {
		if ok, w := SegSubset(e, A); !ok {
			return false, w
		}
	}
	if B.HasArea() {
		switch A.K {
		case KPoint, KLine:
			// a positive-area set is never inside a point or a line (a line may
			// trace B's whole boundary, so the boundary test alone is not enough)
			var w Q
			if B.K == KPoly {
				w = InteriorPoint(B.Ext)
			} else {
				w = norm(big.NewRat(B.Min.X+B.Max.X, 2), big.NewRat(B.Min.Y+B.Max.Y, 2))
			}
			if B.Member(w) && !A.Member(w) {
				return false, &w
			}
			return false, nil
		case KPoly:
			for _, h := range A.Holes {
				if len(h) < 3 {
					continue
				}
				w := InteriorPoint(h)
				if B.Member(w) {
					return false, &w
				}
			}
		}
	}
	return true, nil
}

// SegInter returns a common point of two closed lattice segments, if any.
func SegInter(a, b Seg) *Q {
	for _, p := range []P{a.A, a.B} {
		if OnSeg(b, Lat(p)) {
			q := Lat(p)
			return &q
		}
	}
	for _, p := range []P{b.A, b.B} {
		if OnSeg(a, Lat(p)) {
			q := Lat(p)
			return &q
		}
	}
	if a.A == a.B || b.A == b.B {
		return nil
	}
	o1, o2 := Orient(a.A, a.B, b.A), Orient(a.A, a.B, b.B)
	o3, o4 := Orient(b.A, b.B, a.A), Orient(b.A, b.B, a.B)
	if o1*o2 < 0 && o3*o4 < 0 {
		p := At(a, crossParam(a, b))
		return &p
	}
	return nil
}

// SegsMeet is the integer-only test that two closed lattice segments share a point.
func SegsMeet(a, b Seg) bool {
	o1, o2 := Orient(a.A, a.B, b.A), Orient(a.A, a.B, b.B)
	o3, o4 := Orient(b.A, b.B, a.A), Orient(b.A, b.B, a.B)
	if o1*o2 < 0 && o3*o4 < 0 {
		return true
	}
	return OnSeg(a, Lat(b.A)) || OnSeg(a, Lat(b.B)) || OnSeg(b, Lat(a.A)) || OnSeg(b, Lat(a.B))
}

// Intersects decides whether the closed point sets share a point, with a witness.
// If the sets meet, either their boundaries meet (a candidate intersection
// point) or one holds a whole boundary component of the other (a vertex).
func Intersects(A, B *Shape) (bool, *Q) {
	if A.Empty() || B.Empty() {
		return false, nil
	}
	ba, bb := A.Boundary(), B.Boundary()
	amin, amax, _ := A.Box()
	bmin, bmax, _ := B.Box()
	try := func(q Q) bool {
		if q.Lat { // a point outside either bounding box is in neither set: skip the membership tests
			p := q.L
			if p.X < amin.X || p.X > amax.X || p.Y < amin.Y || p.Y > amax.Y || p.X < bmin.X || p.X > bmax.X || p.Y < bmin.Y || p.Y > bmax.Y {
				return false
			}
		}
		return A.Member(q) && B.Member(q)
	}
	for _, e := range ba {
		if q := Lat(e.A); try(q) {
			return true, &q
		}
	}
	for _, e := range bb {
		if q := Lat(e.A); try(q) {
			return true, &q
		}
		if q := Lat(e.B); try(q) { // open lines: last point
			return true, &q
		}
	}
	for _, e := range ba {
		if q := Lat(e.B); try(q) {
			return true, &q
		}
		for _, f := range bb {
			if p := SegInter(e, f); p != nil && try(*p) {
				return true, p
			}
		}
	}
	return false, nil
}

// SimpleRing reports whether the vertex sequence (without repeated closing
// vertex) is a simple ring: distinct vertices, adjacent edges meeting only at
// their common vertex, non-adjacent edges disjoint, non-zero area.  Collinear
// runs (a vertex in the middle of a straight stretch) are allowed.
func SimpleRing(pts []P) bool {
	n := len(pts)
	if n < 3 {
		return false
	}
	seen := make(map[P]bool, n)
	for _, p := range pts {
		if seen[p] {
			return false
		}
		seen[p] = true
	}
	e := func(i int) Seg { return Seg{pts[i%n], pts[(i+1)%n]} }
	for i := 0; i < n; i++ {
		a, b, c := pts[i], pts[(i+1)%n], pts[(i+2)%n]
		// adjacent edges may only share b: no fold-back
		if Orient(a, b, c) == 0 && (OnSeg(Seg{a, b}, Lat(c)) || OnSeg(Seg{b, c}, Lat(a))) {
			return false
		}
		for j := i + 2; j < n; j++ {
			if i == 0 && j == n-1 {
				continue
			}
			if SegsMeet(e(i), e(j)) {
				return false
			}
		}
	}
	return Area2(pts) != 0
}

// Area2 is twice the signed (shoelace) area; positive = counter-clockwise.
func Area2(pts []P) int64 {
	n := len(pts)
	var ar int64
	if n == 0 {
		return 0
	}
	// relative to the first vertex: the value does not depend on where the ring lies, and the
	// products stay small for a ring far from the origin
	o := pts[0]
	for i := 0; i < n; i++ {
		p, q := pts[i], pts[(i+1)%n]
		ar += (p.X-o.X)*(q.Y-o.Y) - (q.X-o.X)*(p.Y-o.Y)
	}
	return ar
}

// HoleValid reports whether hole h (simple) lies strictly inside ring ext and
// is disjoint from the other holes (boundaries disjoint, not nested).
func HoleValid(ext []P, h []P, others [][]P) bool {
	ee := RingEdges(ext)
	for _, p := range h {
		in, on := PointInRing(ee, Lat(p))
		if !in || on {
			return false
		}
	}
	he := RingEdges(h)
	for _, a := range he {
		for _, b := range ee {
			if SegsMeet(a, b) {
				return false
			}
		}
	}
	for _, o := range others {
		oe := RingEdges(o)
		for _, a := range he {
			for _, b := range oe {
				if SegsMeet(a, b) {
					return false
				}
			}
		}
		if in, _ := PointInRing(oe, Lat(h[0])); in {
			return false
		}
		if in, _ := PointInRing(he, Lat(o[0])); in {
			return false
		}
	}
	return true
}

// ValidShape applies the validity contract of DESIGN.md §3.1 to a shape.
func ValidShape(s *Shape) bool {
	switch s.K {
	case KPoint:
		return true
	case KRect:
		return s.Min.X <= s.Max.X && s.Min.Y <= s.Max.Y
	case KLine:
		return len(s.Line) >= 2
	case KPoly:
		ext := Unclose(s.Ext)
		if !SimpleRing(ext) {
			return false
		}
		for i, h := range s.Holes {
			hh := Unclose(h)
			if !SimpleRing(hh) {
				return false
			}
			var others [][]P
			for j := 0; j < i; j++ {
				others = append(others, Unclose(s.Holes[j]))
			}
			if !HoleValid(ext, hh, others) {
				return false
			}
		}
		return true
	}
	return false
}

// Unclose drops a repeated closing vertex.
func Unclose(pts []P) []P {
	if len(pts) >= 2 && pts[0] == pts[len(pts)-1] {
		return pts[:len(pts)-1]
	}
	return pts
}
