package harness

// C16 — objects are immutable: concurrent queries are race-free and deterministic (DESIGN.md §4 C16).
// Built with -race by the driver; a detected race ends the process with status 66 (GORACE
// exitcode) and the driver turns the round written to <partial>.current into the replay file.

import (
	"encoding/json"
	"fmt"
	"os"
	"sync"
	"testing"

	"github.com/tidwall/geojson"
	"github.com/tidwall/geojson/geometry"
	"pgregory.net/rapid"
	"verifharness/fw"
	"verifharness/gj"
)

type c16Op struct {
	M    int `json:"m"`    // method
	Recv int `json:"recv"` // receiver index in the pool
	Arg  int `json:"arg"`  // argument index in the pool
}

type c16Case struct {
	Docs   []string  `json:"docs,omitempty"` // further pool members parsed from generated documents (z/m ordinates, foreign members)
	Specs  []objSpec `json:"specs"`
	Parsed []int     `json:"parsed"` // 0 constructor, 1 Parse with indexes forced, 2 Parse without indexes
	Ops    []c16Op   `json:"ops"`
	G      int       `json:"goroutines"`
	Reps   int       `json:"reps,omitempty"`
}

const c16Methods = 22

// c16Builder returns the size of the pool and a function that builds pool member i afresh.
func c16Builder(c *c16Case) (int, func(i int) geojson.Object) {
	var docs []int // documents that parse
	for i, d := range c.Docs {
		if _, err := geojson.Parse(d, c16DocOpts(i)); err == nil {
			docs = append(docs, i)
		}
	}
	n := len(c.Specs) + len(docs)
	return n, func(i int) geojson.Object {
		if i >= len(c.Specs) {
			d := docs[i-len(c.Specs)]
			o, _ := geojson.Parse(c.Docs[d], c16DocOpts(d))
			return o
		}
		o := c.Specs[i].build()
		switch c.Parsed[i] {
		case 1:
			if p, err := geojson.Parse(o.JSON(), &geojson.ParseOptions{IndexChildren: 1, IndexGeometry: 1, IndexGeometryKind: geometry.IndexKind(1 + i%2)}); err == nil {
				o = p
			}
		case 2:
			if p, err := geojson.Parse(o.JSON(), &geojson.ParseOptions{}); err == nil {
				o = p
			}
		}
		return o
	}
}

func c16DocOpts(i int) *geojson.ParseOptions {
	return &geojson.ParseOptions{IndexChildren: i % 2, IndexGeometry: i % 2, IndexGeometryKind: geometry.QuadTree, AllowSimplePoints: i%3 == 0, AllowRects: i%3 == 1}
}

func c16Pool(c *c16Case) []geojson.Object {
	n, build := c16Builder(c)
	pool := make([]geojson.Object, n)
	for i := range pool {
		pool[i] = build(i)
	}
	return pool
}

func c16Exec(pool []geojson.Object, op c16Op) string {
	a, b := pool[op.Recv%len(pool)], pool[op.Arg%len(pool)]
	switch op.M % c16Methods {
	case 0:
		return fmt.Sprint(a.Contains(b))
	case 1:
		return fmt.Sprint(a.Within(b))
	case 2:
		return fmt.Sprint(a.Intersects(b))
	case 3:
		return a.JSON()
	case 4:
		return a.String()
	case 5:
		return fmt.Sprint(a.Rect())
	case 6:
		return fmt.Sprint(a.Center())
	case 7:
		return fmt.Sprint(a.Empty(), a.Valid(), a.NumPoints())
	case 8:
		return fmt.Sprint(a.Distance(b))
	case 9:
		n := 0
		a.ForEach(func(g geojson.Object) bool { n++; return true })
		return fmt.Sprint(n)
	case 10:
		return a.Members()
	case 11:
		if cl, ok := a.(geojson.Collection); ok {
			// the children in the order the search reports them (positions in Children())
			pos := map[geojson.Object]int{}
			for i, ch := range cl.Children() {
				pos[ch] = i
			}
			var order []int
			cl.Search(b.Rect(), func(child geojson.Object) bool { order = append(order, pos[child]); return true })
			return fmt.Sprint(order, cl.Indexed(), len(cl.Children()))
		}
		return "-"
	case 12:
		sp := a.Spatial()
		return fmt.Sprint(sp.IntersectsRect(b.Rect()), sp.WithinRect(b.Rect()), sp.IntersectsPoint(b.Center()), sp.WithinPoint(b.Center()))
	case 13:
		sp := a.Spatial()
		return fmt.Sprint(sp.DistanceRect(b.Rect()), sp.DistancePoint(b.Center()))
	case 14:
		_, _, ln, pl := baseGeoms(b)
		sp := a.Spatial()
		if ln != nil {
			return fmt.Sprint(sp.IntersectsLine(ln), sp.WithinLine(ln), sp.DistanceLine(ln))
		}
		if pl != nil && pl.Exterior != nil {
			return fmt.Sprint(sp.IntersectsPoly(pl), sp.WithinPoly(pl), sp.DistancePoly(pl))
		}
		return "-"
	case 15:
		if c, ok := a.(*geojson.Circle); ok {
			return c.Polygon().JSON() + fmt.Sprint(c.Meters(), c.Haversine(), c.HaversineTo(b.Center()))
		}
		if r, ok := a.(*geojson.Rect); ok {
			return r.Polygon().JSON()
		}
		return "-"
	case 16:
		_, _, ln, pl := baseGeoms(a)
		n := 0
		if ln != nil {
			ln.Search(b.Rect(), func(seg geometry.Segment, idx int) bool { n += idx + 1; return true })
			return fmt.Sprint(n, ln.Convex(), ln.Clockwise(), ln.NumSegments())
		}
		if pl != nil && pl.Exterior != nil {
			pl.Exterior.Search(b.Rect(), func(seg geometry.Segment, idx int) bool { n += idx + 1; return true })
			return fmt.Sprint(n, pl.Exterior.Convex(), pl.Clockwise(), pl.Exterior.NumSegments())
		}
		return "-"
	case 17:
		bts, _ := a.MarshalJSON()
		return string(bts)
	case 18:
		return string(a.AppendJSON([]byte("x")))
	case 19:
		_, _, ln, pl := baseGeoms(a)
		if ln != nil {
			return fmt.Sprint(ln.Move(1, 2).Rect())
		}
		if pl != nil && pl.Exterior != nil {
			return fmt.Sprint(pl.Move(1, 2).Rect())
		}
		return "-"
	case 20:
		return fmt.Sprint(b.Contains(a), b.Intersects(a))
	default:
		if f, ok := a.(*geojson.Feature); ok {
			return f.Base().JSON()
		}
		if p, ok := a.(*geojson.Point); ok {
			return fmt.Sprint(p.Z(), p.IsSimple())
		}
		return "-"
	}
}

func c16Check(c c16Case) fw.Outcome {
	if len(c.Specs) == 0 || len(c.Ops) == 0 {
		return fw.Outcome{Label: "empty", Skip: true}
	}
	if out := os.Getenv("VERIF_PARTIAL_OUT"); out != "" {
		if b, err := json.Marshal(c); err == nil {
			os.WriteFile(out+".current", b, 0o644)
		}
	}
	reps := max(1, c.Reps)
	if v := os.Getenv("VERIF_C16_REPS"); v != "" {
		fmt.Sscan(v, &reps)
	}
	for rep := 0; rep < reps; rep++ {
		seq, conc := c16Pool(&c), c16Pool(&c)
		n, build := c16Builder(&c)
		want := make([]string, len(c.Ops))
		for i, op := range c.Ops {
			// "the value it returns when run alone": on objects built for this one call
			r, a := op.Recv%n, op.Arg%n
			pair := []geojson.Object{build(r), nil}
			pair[1] = pair[0]
			if a != r {
				pair[1] = build(a)
			}
			want[i] = c16Exec(pair, c16Op{M: op.M, Recv: 0, Arg: 1})
			// ... and the same value when it is one call in a sequence on long-lived objects (no call leaves a trace)
			if got := c16Exec(seq, op); got != want[i] {
				return fw.Failf("round", "operation %d (method %d on object %d with %d) returned %q after %d earlier calls on the same objects and %q on freshly built ones", i, op.M%c16Methods, r, a, clipStr(got), i, clipStr(want[i]))
			}
		}
		G := max(2, c.G)
		var wg sync.WaitGroup
		start := make(chan struct{})
		var mu sync.Mutex
		var bad string
		for g := 0; g < G; g++ {
			wg.Add(1)
			go func(g int) {
				defer wg.Done()
				<-start
				off := g * len(c.Ops) / G
				for k := range c.Ops {
					i := (k + off) % len(c.Ops)
					if got := c16Exec(conc, c.Ops[i]); got != want[i] {
						mu.Lock()
						if bad == "" {
							bad = fmt.Sprintf("operation %d (method %d on object %d with %d) returned %q concurrently and %q when run alone", i, c.Ops[i].M%c16Methods, c.Ops[i].Recv%len(conc), c.Ops[i].Arg%len(conc), clipStr(got), clipStr(want[i]))
						}
						mu.Unlock()
					}
				}
			}(g)
		}
		close(start)
		wg.Wait()
		if bad != "" {
			return fw.Failf("round", "%s", bad)
		}
	}
	kinds := map[string]bool{}
	for i := range c.Specs {
		kinds[c.Specs[i].Kind] = true
	}
	return fw.OK(fmt.Sprintf("round/kinds:%d/goroutines:%d", len(kinds), max(2, c.G)), len(c.Ops) >= 2)
}

func clipStr(s string) string {
	if len(s) > 120 {
		return s[:120] + "…"
	}
	return s
}

func c16Gen(t *rapid.T) c16Case {
	c := c16Case{G: rapid.SampledFrom([]int{8, 12, 16}).Draw(t, "g")}
	n := rapid.IntRange(8, 14).Draw(t, "pool")
	kinds := append([]string{}, c09Kinds...)
	for i := 0; i < n; i++ {
		var s objSpec
		want := kinds[(i+rapid.IntRange(0, 11).Draw(t, "kshift"))%12]
		for tries := 0; tries < 6; tries++ {
			s = genLatticeSpec(t, 2, true)
			if s.Kind == want {
				break
			}
		}
		// some long lines / rings: with and without a geometry index (default threshold 64, or forced / disabled through Parse)
		if (s.Kind == "LineString" || s.Kind == "Polygon") && rapid.IntRange(0, 1).Draw(t, "long") == 0 {
			m := rapid.SampledFrom([]int{9, 20, 63, 64, 90}).Draw(t, "longn")
			pts := make([]fpt, 0, m+1)
			for j := 0; j < m; j++ {
				pts = append(pts, fpt{F(rapid.IntRange(0, 6).Draw(t, "lx")), F(rapid.IntRange(0, 6).Draw(t, "ly"))})
			}
			if s.Kind == "LineString" {
				s.Pts = pts
			} else {
				s.NilPoly = false
				s.Rings = [][]fpt{append(pts, pts[0])}
			}
		}
		// collections with enough children for a child index (default threshold 64), made by a constructor or parsed
		if (s.Kind == "MultiPoint" || s.Kind == "GeometryCollection" || s.Kind == "FeatureCollection") && rapid.IntRange(0, 1).Draw(t, "many") == 0 {
			m := rapid.SampledFrom([]int{63, 64, 65, 100}).Draw(t, "manyn")
			pts := make([]fpt, 0, m)
			for j := 0; j < m; j++ {
				pts = append(pts, fpt{F(rapid.IntRange(0, 6).Draw(t, "mx")), F(rapid.IntRange(0, 6).Draw(t, "my"))})
			}
			if s.Kind == "MultiPoint" {
				s.Pts = pts
			} else {
				s.Children = nil
				for _, q := range pts {
					s.Children = append(s.Children, objSpec{Kind: "Point", Pts: []fpt{q}})
				}
			}
		}
		// a Circle whose radius exceeds the circumference (what the polygon approximation normalises must not be the object's own radius)
		if s.Kind == "Circle" && rapid.IntRange(0, 3).Draw(t, "bigradius") == 0 {
			s.Radius = F(rapid.SampledFrom([]float64{4.5e7, 40030173.592, 8.1e7}).Draw(t, "bigradiusv"))
		}
		// polygons with many holes (slices with spare capacity)
		if s.Kind == "Polygon" && !s.NilPoly && len(s.Rings) > 0 && rapid.IntRange(0, 2).Draw(t, "manyholes") == 0 {
			for h := rapid.IntRange(3, 9).Draw(t, "nholes"); h > 0; h-- {
				x, y := float64(rapid.IntRange(0, 5).Draw(t, "hx")), float64(rapid.IntRange(0, 5).Draw(t, "hy"))
				s.Rings = append(s.Rings, []fpt{{F(x), F(y)}, {F(x + 1), F(y)}, {F(x), F(y + 1)}, {F(x), F(y)}})
			}
		}
		c.Specs = append(c.Specs, s)
		c.Parsed = append(c.Parsed, rapid.IntRange(0, 2).Draw(t, "parsed"))
	}
	// twins: an object that differs from a pool member in one constructor argument only (a Circle with the same
	// centre and radius but another step count): a process-wide cache keyed on part of the arguments mixes them up
	for i := range c.Specs {
		if c.Specs[i].Kind == "Circle" && rapid.Bool().Draw(t, "twin") {
			tw := c.Specs[i]
			tw.Steps = rapid.SampledFrom([]int{3, 4, 5, 8, 17, 64}).Draw(t, "twinsteps")
			c.Specs = append(c.Specs, tw)
			c.Parsed = append(c.Parsed, 0)
			n++
			break
		}
	}
	for i := rapid.IntRange(2, 4).Draw(t, "ndocs"); i > 0; i-- {
		c.Docs = append(c.Docs, gj.Doc(t, gj.Opts{MaxDepth: 2, Lattice: true, NoCircle: i%2 == 0}))
	}
	nops := rapid.IntRange(60, 200).Draw(t, "nops")
	np := n + len(c.Docs)
	for i := 0; i < nops; i++ {
		c.Ops = append(c.Ops, c16Op{M: rapid.IntRange(0, c16Methods-1).Draw(t, "m"), Recv: rapid.IntRange(0, np-1).Draw(t, "recv"), Arg: rapid.IntRange(0, np-1).Draw(t, "arg")})
	}
	return c
}

func c16Subs() []fw.Sub {
	return []fw.Sub{fw.Prop[c16Case]{
		Name: "concurrent-rounds",
		Checks: func(tier string) int {
			if tier == "thorough" {
				return 3000
			}
			return 150
		},
		Gen: c16Gen, Check: c16Check,
		Key: func(c c16Case) uint64 {
			b, _ := json.Marshal(struct {
				S []objSpec
				O []c16Op
			}{c.Specs, c.Ops})
			return fnvBytes(b)
		},
	}}
}

func TestC16(t *testing.T) { fw.Main(t, "C16", c16Subs(), nil) }
