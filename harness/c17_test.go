package harness

// C17 — every constructible object serialises to well-formed GeoJSON, by appending (DESIGN.md §4 C17).

import (
	"bytes"
	"encoding/json"
	"fmt"
	"math"
	"strconv"
	"strings"
	"testing"

	"github.com/tidwall/geojson"
	"github.com/tidwall/geojson/geometry"
	"pgregory.net/rapid"
	"verifharness/fw"
	"verifharness/gj"
	"verifharness/jdoc"
)

type fpt struct {
	X F `json:"x"`
	Y F `json:"y"`
}

func (p fpt) g() geometry.Point { return geometry.Point{X: float64(p.X), Y: float64(p.Y)} }

type objSpec struct {
	Kind     string    `json:"kind"`
	Pts      []fpt     `json:"pts,omitempty"`
	Rings    [][]fpt   `json:"rings,omitempty"`
	NilPoly  bool      `json:"nil_poly,omitempty"`
	Z        F         `json:"z,omitempty"`
	Radius   F         `json:"radius,omitempty"`
	Steps    int       `json:"steps,omitempty"`
	Members  string    `json:"members,omitempty"`
	Children []objSpec `json:"children,omitempty"`
}

func gpts(ps []fpt) []geometry.Point {
	out := make([]geometry.Point, len(ps))
	for i, p := range ps {
		out[i] = p.g()
	}
	return out
}

// scribbled runs a constructor on freshly made slices and overwrites them afterwards: an object must not go on
// reading the memory its constructor was handed (a caller may reuse its buffer for the next shape)
func scribbled[T any](build func() T, slices ...[]geometry.Point) T {
	o := build()
	for _, sl := range slices {
		for i := range sl {
			sl[i] = geometry.Point{X: -77.25 - float64(i), Y: 66.5 + float64(i)}
		}
	}
	return o
}

func (s *objSpec) poly() *geometry.Poly {
	if s.NilPoly {
		return nil
	}
	var ext []geometry.Point
	var holes [][]geometry.Point
	if len(s.Rings) > 0 {
		ext = gpts(s.Rings[0])
		for _, h := range s.Rings[1:] {
			holes = append(holes, gpts(h))
		}
	}
	return scribbled(func() *geometry.Poly { return geometry.NewPoly(ext, holes, nil) }, append([][]geometry.Point{ext}, holes...)...)
}

func (s *objSpec) build() geojson.Object {
	p0 := geometry.Point{}
	if len(s.Pts) > 0 {
		p0 = s.Pts[0].g()
	}
	switch s.Kind {
	case "Point":
		return geojson.NewPoint(p0)
	case "PointZ":
		return geojson.NewPointZ(p0, float64(s.Z))
	case "SimplePoint":
		return geojson.NewSimplePoint(p0)
	case "LineString":
		pts := gpts(s.Pts)
		return scribbled(func() geojson.Object { return geojson.NewLineString(geometry.NewLine(pts, nil)) }, pts)
	case "Polygon":
		return geojson.NewPolygon(s.poly())
	case "Rect":
		p1 := p0
		if len(s.Pts) > 1 {
			p1 = s.Pts[1].g()
		}
		return geojson.NewRect(geometry.Rect{Min: p0, Max: p1})
	case "Circle":
		return geojson.NewCircle(p0, float64(s.Radius), s.Steps)
	case "MultiPoint":
		pts := gpts(s.Pts)
		return scribbled(func() geojson.Object { return geojson.NewMultiPoint(pts) }, pts)
	case "MultiLineString":
		var lines []*geometry.Line
		for _, r := range s.Rings {
			pts := gpts(r)
			lines = append(lines, scribbled(func() *geometry.Line { return geometry.NewLine(pts, nil) }, pts))
		}
		return geojson.NewMultiLineString(lines)
	case "MultiPolygon":
		var polys []*geometry.Poly
		for i := range s.Children {
			polys = append(polys, s.Children[i].poly())
		}
		return geojson.NewMultiPolygon(polys)
	case "GeometryCollection", "FeatureCollection":
		var ch []geojson.Object
		for i := range s.Children {
			ch = append(ch, s.Children[i].build())
		}
		if s.Kind == "GeometryCollection" {
			return geojson.NewGeometryCollection(ch)
		}
		return geojson.NewFeatureCollection(ch)
	case "Feature":
		return geojson.NewFeature(s.Children[0].build(), s.Members)
	}
	panic("unknown kind " + s.Kind)
}

func (s *objSpec) jsonType() string {
	switch s.Kind {
	case "PointZ", "SimplePoint":
		return "Point"
	case "Rect":
		return "Polygon"
	case "Circle":
		return "Feature"
	}
	return s.Kind
}

var coordDepth = map[string]int{"Point": 1, "LineString": 2, "Polygon": 3, "MultiPoint": 2, "MultiLineString": 3, "MultiPolygon": 4}

// leafDepths checks that every number / null of a coordinates value sits at depth d.
func leafDepths(v *jdoc.Value, depth, want int) string {
	switch v.Kind {
	case jdoc.Array:
		if depth >= want {
			return fmt.Sprintf("array nested deeper than %d", want)
		}
		for _, e := range v.Arr {
			if m := leafDepths(e, depth+1, want); m != "" {
				return m
			}
		}
	case jdoc.Number, jdoc.Null:
		if depth != want {
			return fmt.Sprintf("ordinate at depth %d, the type requires %d", depth, want)
		}
	default:
		return "a " + v.Kind.String() + " inside coordinates"
	}
	return ""
}

func (s *objSpec) nonFinite() bool {
	bad := func(f F) bool { return math.IsNaN(float64(f)) || math.IsInf(float64(f), 0) }
	for _, p := range s.Pts {
		if bad(p.X) || bad(p.Y) {
			return true
		}
	}
	for _, r := range s.Rings {
		for _, p := range r {
			if bad(p.X) || bad(p.Y) {
				return true
			}
		}
	}
	if bad(s.Z) || bad(s.Radius) {
		return true
	}
	for i := range s.Children {
		if s.Children[i].nonFinite() {
			return true
		}
	}
	return false
}

// checkShape validates one decoded object against its spec, recursively.
func checkShape(path string, s *objSpec, v *jdoc.Value) string {
	if v.Kind != jdoc.Object {
		return path + ": not a JSON object"
	}
	t := v.Get("type")
	if t == nil || t.Kind != jdoc.String || t.Str != s.jsonType() || v.Count("type") != 1 {
		return fmt.Sprintf("%s: \"type\" is %v, want exactly one %q", path, t, s.jsonType())
	}
	switch s.jsonType() {
	case "Feature":
		g := v.Get("geometry")
		if g == nil {
			return path + ": Feature without geometry"
		}
		if v.Get("properties") == nil {
			return path + ": Feature without properties"
		}
		if s.Kind == "Circle" {
			return checkShape(path+".geometry", &objSpec{Kind: "Point"}, g)
		}
		return checkShape(path+".geometry", &s.Children[0], g)
	case "GeometryCollection", "FeatureCollection":
		key := "geometries"
		if s.Kind == "FeatureCollection" {
			key = "features"
		}
		a := v.Get(key)
		if a == nil || a.Kind != jdoc.Array || len(a.Arr) != len(s.Children) {
			return fmt.Sprintf("%s: %q is not an array of %d objects", path, key, len(s.Children))
		}
		for i := range s.Children {
			if m := checkShape(fmt.Sprintf("%s.%s[%d]", path, key, i), &s.Children[i], a.Arr[i]); m != "" {
				return m
			}
		}
		return ""
	}
	c := v.Get("coordinates")
	if c == nil || c.Kind != jdoc.Array {
		return path + ": coordinates missing or not an array"
	}
	if m := leafDepths(c, 0, coordDepth[s.jsonType()]); m != "" {
		return path + ": " + m
	}
	return ""
}

func c17Check(s objSpec) fw.Outcome {
	obj := s.build()
	label := s.Kind
	base := obj.AppendJSON(nil)
	if js := obj.JSON(); js != string(base) {
		return fw.Failf(label, "JSON() %q differs from AppendJSON(nil) %q", js, base)
	}
	if js := obj.String(); js != string(base) {
		return fw.Failf(label, "String() %q differs from AppendJSON(nil) %q", js, base)
	}
	if mj, err := obj.MarshalJSON(); err != nil || !bytes.Equal(mj, base) {
		return fw.Failf(label, "MarshalJSON() (%q, %v) differs from AppendJSON(nil) %q", mj, err, base)
	}
	// append-only: prefix with spare capacity filled with a sentinel
	for _, spare := range []int{0, 3, len(base) + 16} {
		prefix := []byte("\x00pre{fix\"")
		buf := make([]byte, len(prefix), len(prefix)+spare)
		copy(buf, prefix)
		full := buf[:cap(buf)]
		for i := len(prefix); i < len(full); i++ {
			full[i] = 0xAA
		}
		got := obj.AppendJSON(buf)
		if !bytes.Equal(got, append(append([]byte{}, prefix...), base...)) {
			return fw.Failf(label, "AppendJSON(prefix) with spare capacity %d returned %q, want prefix followed by %q", spare, got, base)
		}
		if !bytes.Equal(buf[:len(prefix)], prefix) {
			return fw.Failf(label, "AppendJSON modified the prefix's visible contents: %q", buf[:len(prefix)])
		}
	}
	// a second, fresh object whose FIRST serialisation goes into a caller's buffer that already has content
	// and is then reused by the caller: what the object returns afterwards must not depend on that buffer
	// (a cached rendering must be the object's own copy, and of its own bytes only)
	{
		fresh := s.build()
		buf := make([]byte, 0, 2*len(base)+64)
		buf = append(buf, "[0,"...)
		first := fresh.AppendJSON(buf)
		if !bytes.Equal(first, append([]byte("[0,"), base...)) {
			return fw.Failf(label, "first AppendJSON of a fresh object into a used buffer returned %q, want \"[0,\" followed by %q", first, base)
		}
		full := first[:cap(first)]
		for i := range full {
			full[i] = 'Z'
		}
		if again := fresh.JSON(); again != string(base) {
			return fw.Failf(label, "after AppendJSON into a caller's buffer that the caller then overwrote, JSON() returns %q, want %q", again, base)
		}
		if again := fresh.AppendJSON(nil); !bytes.Equal(again, base) {
			return fw.Failf(label, "second AppendJSON(nil) returns %q, want %q", again, base)
		}
	}
	if !json.Valid(base) {
		return fw.Failf(label, "output is not valid JSON: %q (spec %+v)", base, s)
	}
	if bytes.Contains(base, []byte("NaN")) && !strings.Contains(s.allMembers(), "NaN") || bytes.Contains(base, []byte("Inf")) && !strings.Contains(s.allMembers(), "Inf") {
		return fw.Failf(label, "bare non-finite token in output %q", base)
	}
	v, err := jdoc.Parse(string(base))
	if err != nil {
		return fw.Failf(label, "output does not decode: %v: %q", err, base)
	}
	if m := checkShape("$", &s, v); m != "" {
		return fw.Failf(label, "%s; output %q", m, base)
	}
	if s.Kind == "PointZ" {
		// the one constructor that takes a third ordinate: it is written (null when not finite) and Z() returns it
		z := float64(s.Z)
		co := v.Get("coordinates")
		if co == nil || co.Kind != jdoc.Array || len(co.Arr) != 3 {
			return fw.Failf(label, "NewPointZ(.., %v): coordinates do not have three ordinates; output %q", z, base)
		}
		finite := !math.IsNaN(z) && !math.IsInf(z, 0)
		if zt := co.Arr[2]; finite && (zt.Kind != jdoc.Number || mustFloat(zt.Num) != z) || !finite && zt.Kind != jdoc.Null {
			return fw.Failf(label, "NewPointZ(.., %v): third ordinate written differently; output %q", z, base)
		}
		if got := obj.(*geojson.Point).Z(); got != z && !(math.IsNaN(got) && math.IsNaN(z)) {
			return fw.Failf(label, "NewPointZ(.., %v).Z() = %v", z, got)
		}
	}
	if s.Kind == "Feature" {
		if m := c17Members(&s, v); m != "" {
			return fw.Failf(label, "%s; members %q output %q", m, s.Members, base)
		}
	}
	nt := s.nonFinite() || s.Members != "" || len(s.Children) > 0
	feat := ""
	if s.nonFinite() {
		feat += "/non-finite"
	}
	if s.allMembers() != "" {
		feat += "/members"
	}
	return fw.OK(label+feat, nt)
}

func mustFloat(lit string) float64 {
	f, err := strconv.ParseFloat(lit, 64)
	if err != nil {
		return math.NaN()
	}
	return f
}

func (s *objSpec) allMembers() string {
	out := s.Members
	for i := range s.Children {
		out += s.Children[i].allMembers()
	}
	return out
}

// c17Members: member text that is a JSON object shows up (minus a "feature" member);
// any other text is ignored.
func c17Members(s *objSpec, v *jdoc.Value) string {
	var want []jdoc.Member
	if mv, err := jdoc.Parse(s.Members); err == nil && mv.Kind == jdoc.Object {
		for _, m := range mv.Obj {
			if m.Key == "feature" {
				continue
			}
			want = append(want, m)
		}
	}
	hasProps := false
	for _, m := range want {
		if m.Key == "properties" {
			hasProps = true
		}
	}
	if !hasProps {
		want = append(want, jdoc.Member{Key: "properties", Val: &jdoc.Value{Kind: jdoc.Object}})
	}
	var got []jdoc.Member
	for _, m := range v.Obj {
		// whether every duplicate of a "feature" member is removed is not part of the property
		if m.Key != "type" && m.Key != "geometry" && m.Key != "feature" {
			got = append(got, m)
		}
	}
	if len(got) != len(want) {
		return fmt.Sprintf("Feature has members %s, the member text gives %s", keys(got), keys(want))
	}
	for i := range want {
		if got[i].Key != want[i].Key || !jdoc.Equal(got[i].Val, want[i].Val, numLitEq) {
			return fmt.Sprintf("Feature member %d is %q, the member text gives %q (or its value differs)", i, got[i].Key, want[i].Key)
		}
	}
	return ""
}

var floatPool = []float64{0, math.Copysign(0, -1), 1, -1, 0.1, 1e21, 1e-7, math.NaN(), math.Inf(1), math.Inf(-1), math.MaxFloat64, -math.MaxFloat64,
	math.SmallestNonzeroFloat64, 2.2250738585072014e-308, 180, -180, 90, 123456789.12345678, 1e300, -1e-300, 9007199254740993}

func genF(t *rapid.T, label string) F {
	switch rapid.IntRange(0, 3).Draw(t, label+"_m") {
	case 0:
		return F(rapid.SampledFrom(floatPool).Draw(t, label+"_pool"))
	case 1:
		return F(rapid.Float64().Draw(t, label+"_any"))
	}
	return F(rapid.IntRange(-10, 10).Draw(t, label+"_int"))
}

func genFpts(t *rapid.T, lo, hi int, label string) []fpt {
	n := rapid.IntRange(lo, hi).Draw(t, label+"_n")
	out := make([]fpt, n)
	for i := range out {
		out[i] = fpt{genF(t, label+"x"), genF(t, label+"y")}
	}
	return out
}

var memberPool = []string{
	``, `{}`, `{ }`, " {\n} ", `{"id":"391","properties":{}}`, `{"feature":1}`, `{"feature":1,"id":2}`, `{"id":1,"feature":{"a":[1,2]},"bbox":[0,0,1,1]}`,
	`{"properties":{"a":"b\"c d","n":null}}`, `{ "a" : [ 1 , 2 , { "b" : "x y" } ] }`, `{"k\" y" : 1}`, `{"é":"😀","properties":null}`,
	`{"id":NaN}`, `[1,2]`, `"str"`, `null`, `5`, `{"a":1`, `not json`, `{"a":1}}`, `{"type2":"x","Feature":true}`, `{"properties":{"type":"Circle","radius":5}}`,
	`{"a":1e999}`, "{\"a\":\"\t\"}", `{"a":{"feature":2}}`, `{"feature":{"feature":3},"z":0}`, ` {"ws":  "keep  inner  spaces"} `,
}

func genMembers(t *rapid.T) string {
	if rapid.IntRange(0, 3).Draw(t, "mem_m") == 0 {
		n := rapid.IntRange(0, 3).Draw(t, "mem_n")
		var parts []string
		for i := 0; i < n; i++ {
			k := rapid.SampledFrom([]string{`"id"`, `"properties"`, `"bbox"`, `"feature"`, `"a b"`, `"x\"y"`, `"é"`}).Draw(t, "mem_k")
			v := rapid.SampledFrom([]string{`1`, `"v"`, `null`, `[1, 2]`, `{"n": {"m": [ ]}}`, `"a\"b c"`, `-0.0e+1`, `true`}).Draw(t, "mem_v")
			ws := rapid.SampledFrom([]string{"", " ", "\n", "\t "}).Draw(t, "mem_ws")
			parts = append(parts, ws+k+ws+":"+ws+v)
		}
		return "{" + strings.Join(parts, ",") + rapid.SampledFrom([]string{"", " "}).Draw(t, "mem_end") + "}"
	}
	return rapid.SampledFrom(memberPool).Draw(t, "mem_pool")
}

func genObjSpec(t *rapid.T, depth int) objSpec {
	kinds := []string{"Point", "PointZ", "SimplePoint", "LineString", "Polygon", "Rect", "Circle", "MultiPoint", "MultiLineString", "MultiPolygon"}
	if depth > 0 {
		kinds = append(kinds, "GeometryCollection", "FeatureCollection", "Feature", "Feature", "Feature")
	}
	s := objSpec{Kind: rapid.SampledFrom(kinds).Draw(t, "okind")}
	switch s.Kind {
	case "Point", "SimplePoint":
		s.Pts = genFpts(t, 1, 1, "p")
	case "PointZ":
		s.Pts = genFpts(t, 1, 1, "p")
		s.Z = genF(t, "z")
	case "LineString":
		s.Pts = genFpts(t, 0, 5, "l")
	case "Polygon":
		if rapid.IntRange(0, 9).Draw(t, "nilpoly") == 0 {
			s.NilPoly = true
			break
		}
		nr := rapid.IntRange(1, 3).Draw(t, "nrings")
		for i := 0; i < nr; i++ {
			s.Rings = append(s.Rings, genFpts(t, 0, 5, "r"))
		}
	case "Rect":
		s.Pts = genFpts(t, 2, 2, "r")
	case "Circle":
		s.Pts = genFpts(t, 1, 1, "c")
		s.Radius = genF(t, "radius")
		if rapid.Bool().Draw(t, "posrad") {
			s.Radius = F(math.Abs(float64(rapid.Float64Range(0, 3e7).Draw(t, "rad"))))
		}
		s.Steps = rapid.SampledFrom([]int{-1, 0, 2, 3, 4, 64}).Draw(t, "steps")
	case "MultiPoint":
		s.Pts = genFpts(t, 0, 4, "mp")
	case "MultiLineString":
		n := rapid.IntRange(0, 3).Draw(t, "nlines")
		for i := 0; i < n; i++ {
			s.Rings = append(s.Rings, genFpts(t, 0, 4, "ml"))
		}
	case "MultiPolygon":
		n := rapid.IntRange(0, 3).Draw(t, "npolys")
		for i := 0; i < n; i++ {
			c := objSpec{Kind: "Polygon"}
			if rapid.IntRange(0, 9).Draw(t, "nilpoly") == 0 {
				c.NilPoly = true
			} else {
				nr := rapid.IntRange(1, 2).Draw(t, "nrings")
				for j := 0; j < nr; j++ {
					c.Rings = append(c.Rings, genFpts(t, 0, 5, "r"))
				}
			}
			s.Children = append(s.Children, c)
		}
	case "GeometryCollection", "FeatureCollection":
		n := rapid.IntRange(0, 3).Draw(t, "nchildren")
		for i := 0; i < n; i++ {
			s.Children = append(s.Children, genObjSpec(t, depth-1))
		}
	case "Feature":
		s.Children = []objSpec{genObjSpec(t, depth-1)}
		s.Members = genMembers(t)
	}
	return s
}

func c17Subs() []fw.Sub {
	return []fw.Sub{fw.Prop[objSpec]{
		Name: "serialise",
		Checks: func(tier string) int {
			if tier == "thorough" {
				return 400000
			}
			return 25000
		},
		Gen:   func(t *rapid.T) objSpec { return genObjSpec(t, 3) },
		Check: c17Check,
	}, fw.Prop[c06Case]{
		Name: "serialise-parsed",
		Checks: func(tier string) int {
			if tier == "thorough" {
				return 300000
			}
			return 20000
		},
		Gen: c17ParsedGen, Check: c17ParsedCheck,
	}}
}

func TestC17(t *testing.T) { fw.Main(t, "C17", c17Subs(), nil) }

// ---- objects obtained from Parse ----

func goTypeJSONName(o geojson.Object) string {
	switch o.(type) {
	case *geojson.Point, *geojson.SimplePoint:
		return "Point"
	case *geojson.LineString:
		return "LineString"
	case *geojson.Polygon, *geojson.Rect:
		return "Polygon"
	case *geojson.MultiPoint:
		return "MultiPoint"
	case *geojson.MultiLineString:
		return "MultiLineString"
	case *geojson.MultiPolygon:
		return "MultiPolygon"
	case *geojson.GeometryCollection:
		return "GeometryCollection"
	case *geojson.FeatureCollection:
		return "FeatureCollection"
	case *geojson.Feature, *geojson.Circle:
		return "Feature"
	}
	return "?"
}

// checkShapeObj validates decoded output against the library object tree.
func checkShapeObj(path string, o geojson.Object, v *jdoc.Value) string {
	if v.Kind != jdoc.Object {
		return path + ": not a JSON object"
	}
	want := goTypeJSONName(o)
	t := v.Get("type")
	if t == nil || t.Kind != jdoc.String || t.Str != want {
		return fmt.Sprintf("%s: \"type\" is %v, the object is a %T (%s)", path, t, o, want)
	}
	switch x := o.(type) {
	case *geojson.Circle:
		if v.Get("properties") == nil || v.Get("geometry") == nil {
			return path + ": Circle without geometry / properties"
		}
		return checkShapeObj(path+".geometry", geojson.NewPoint(x.Center()), v.Get("geometry"))
	case *geojson.Feature:
		if v.Get("properties") == nil || v.Get("geometry") == nil {
			return path + ": Feature without geometry / properties"
		}
		return checkShapeObj(path+".geometry", x.Base(), v.Get("geometry"))
	case *geojson.GeometryCollection, *geojson.FeatureCollection:
		key := "geometries"
		if want == "FeatureCollection" {
			key = "features"
		}
		ch := o.(geojson.Collection).Children()
		a := v.Get(key)
		if a == nil || a.Kind != jdoc.Array || len(a.Arr) != len(ch) {
			return fmt.Sprintf("%s: %q is not an array of %d objects", path, key, len(ch))
		}
		for i := range ch {
			if m := checkShapeObj(fmt.Sprintf("%s.%s[%d]", path, key, i), ch[i], a.Arr[i]); m != "" {
				return m
			}
		}
		return ""
	}
	c := v.Get("coordinates")
	if c == nil || c.Kind != jdoc.Array {
		return path + ": coordinates missing or not an array"
	}
	if m := leafDepths(c, 0, coordDepth[want]); m != "" {
		return path + ": " + m
	}
	return ""
}

func c17ParsedCheck(c c06Case) fw.Outcome {
	obj, err := geojson.Parse(c.Text, c.Opts.lib())
	if err != nil {
		return fw.Outcome{Label: "not accepted by Parse", Skip: true}
	}
	label := fmt.Sprintf("parsed/%T", obj)
	base := obj.AppendJSON(nil)
	if js := obj.JSON(); js != string(base) {
		return fw.Failf(label, "JSON() %q differs from AppendJSON(nil) %q", js, base)
	}
	if js := obj.String(); js != string(base) {
		return fw.Failf(label, "String() %q differs from AppendJSON(nil) %q", js, base)
	}
	if mj, err := obj.MarshalJSON(); err != nil || !bytes.Equal(mj, base) {
		return fw.Failf(label, "MarshalJSON() (%q, %v) differs from AppendJSON(nil) %q", mj, err, base)
	}
	prefix := []byte("[1,")
	buf := make([]byte, len(prefix), len(prefix)+len(base)/2+1)
	copy(buf, prefix)
	if got := obj.AppendJSON(buf); !bytes.Equal(got, append(append([]byte{}, prefix...), base...)) || !bytes.Equal(buf[:len(prefix)], prefix) {
		return fw.Failf(label, "AppendJSON(prefix) returned %q, want prefix followed by %q", got, base)
	}
	if !json.Valid(base) {
		return fw.Failf(label, "output is not valid JSON: %q; text %q", base, c.Text)
	}
	v, err := jdoc.Parse(string(base))
	if err != nil {
		return fw.Failf(label, "output does not decode: %v: %q", err, base)
	}
	if m := checkShapeObj("$", obj, v); m != "" {
		return fw.Failf(label, "%s; output %q; text %q", m, base, c.Text)
	}
	return fw.OK(label, len(c.Text) > 60)
}

func c17ParsedGen(t *rapid.T) c06Case {
	return c06Case{Text: gj.Doc(t, gj.Opts{MaxDepth: 3, Noise: true, AllowOverflow: true, Mutations: rapid.IntRange(0, 1).Draw(t, "nmut")}), Opts: genOpts(t)}
}
