package harness

// C13 — Circle objects mean "within great-circle distance of the centre" (DESIGN.md §4 C13).

import (
	"fmt"
	"math"
	"strconv"
	"testing"

	"github.com/tidwall/geojson"
	"github.com/tidwall/geojson/geometry"
	"pgregory.net/rapid"
	"verifharness/fw"
	"verifharness/sphere"
)

type c13Case struct {
	Lat   F      `json:"lat"`
	Lon   F      `json:"lon"`
	R     F      `json:"metres"`
	R2    F      `json:"metres2"` // a second radius (monotonicity, second circle)
	PLat  F      `json:"probe_lat"`
	PLon  F      `json:"probe_lon"`
	Steps int    `json:"steps"`
	Kind  string `json:"kind"`
}

func c13Tol(r float64) float64 { return math.Max(1e-3, 1e-8*r) }

func c13Check(c c13Case) fw.Outcome {
	lat, lon, r, r2 := float64(c.Lat), float64(c.Lon), float64(c.R), float64(c.R2)
	plat, plon := float64(c.PLat), float64(c.PLon)
	centre := geometry.Point{X: lon, Y: lat}
	probe := geometry.Point{X: plon, Y: plat}
	circ := geojson.NewCircle(centre, r, c.Steps)
	d := sphere.Distance(lat, lon, plat, plon)
	label := c.Kind
	nt := math.Abs(d-r) < 0.1*r || c.Kind != "general"
	// --- 1. point membership, Point and SimplePoint, both operand orders ---
	tol := c13Tol(r)
	decided, want := false, false
	if d < r-tol {
		decided, want = true, true
	} else if d > r+tol {
		decided, want = true, false
	}
	if decided {
		for _, po := range []geojson.Object{geojson.NewPoint(probe), geojson.NewSimplePoint(probe)} {
			for _, cl := range []struct {
				name string
				got  bool
			}{
				{"Circle.Contains", circ.Contains(po)}, {"Circle.Intersects", circ.Intersects(po)},
				{"point.Within(Circle)", po.Within(circ)}, {"point.Intersects(Circle)", po.Intersects(circ)},
			} {
				if cl.got != want {
					return fw.Failf(label, "%s = %v for %T at great-circle distance %.6f m from the centre (%v,%v) of a circle of radius %v m (tolerance %.3g m)",
						cl.name, cl.got, po, d, lat, lon, r, tol)
				}
			}
		}
		// the same through wrappers: a one-point collection, a Feature of a Feature, the circle inside two Features
		pt := geojson.NewPoint(probe)
		wrapped := geojson.NewFeature(geojson.NewFeature(circ, ""), "")
		for _, w := range []struct {
			name string
			obj  geojson.Object
		}{
			{"MultiPoint[p]", geojson.NewMultiPoint([]geometry.Point{probe})},
			{"GeometryCollection[Point p]", geojson.NewGeometryCollection([]geojson.Object{pt})},
			{"Feature{Feature{Point p}}", geojson.NewFeature(geojson.NewFeature(pt, ""), "")},
		} {
			for _, cl := range []struct {
				name string
				got  bool
			}{
				{"Circle.Contains(" + w.name + ")", circ.Contains(w.obj)}, {"Circle.Intersects(" + w.name + ")", circ.Intersects(w.obj)},
				{w.name + ".Within(Circle)", w.obj.Within(circ)},
			} {
				if cl.got != want {
					return fw.Failf(label, "%s = %v, the point is at great-circle distance %.6f m from the centre (%v,%v) of a circle of radius %v m (tolerance %.3g m)",
						cl.name, cl.got, d, lat, lon, r, tol)
				}
			}
		}
		for _, po := range []geojson.Object{pt, geojson.NewSimplePoint(probe)} {
			if got := po.Intersects(wrapped); got != want {
				return fw.Failf(label, "%T.Intersects(Feature{Feature{Circle}}) = %v at great-circle distance %.6f m from the centre (%v,%v) of a circle of radius %v m (tolerance %.3g m)", po, got, d, lat, lon, r, tol)
			}
			if got := po.Within(wrapped); got != want {
				return fw.Failf(label, "%T.Within(Feature{Feature{Circle}}) = %v at great-circle distance %.6f m from the centre (%v,%v) of a circle of radius %v m (tolerance %.3g m)", po, got, d, lat, lon, r, tol)
			}
		}
	} else {
		label += "/within-tolerance-of-rim"
	}
	// --- 2. monotone in the radius ---
	lo, hi := math.Min(r, r2), math.Max(r, r2)
	if hi-lo > c13Tol(hi) {
		small, big := geojson.NewCircle(centre, lo, c.Steps), geojson.NewCircle(centre, hi, c.Steps)
		po := geojson.NewPoint(probe)
		if small.Contains(po) && !big.Contains(po) && math.Abs(d-hi) > c13Tol(hi) {
			return fw.Failf(label, "containment not monotone in the radius: radius %v contains the probe at %.6f m, radius %v does not", lo, d, hi)
		}
	}
	// --- 3. circle against circle ---
	other := geojson.NewCircle(probe, r2, c.Steps)
	t2 := c13Tol(math.Max(r, r2)) + c13Tol(d)
	if circ.Contains(other) && !(d+r2 <= r+t2) {
		return fw.Failf(label, "Circle(r=%v).Contains(Circle(r=%v)) = true although centre distance %.6f + %v > %v", r, r2, d, r2, r)
	}
	if other.Within(circ) != circ.Contains(other) {
		return fw.Failf(label, "Circle.Within(Circle) differs from the reversed Contains")
	}
	if gi := circ.Intersects(other); d < r+r2-t2 && !gi || d > r+r2+t2 && gi {
		return fw.Failf(label, "Circle(r=%v).Intersects(Circle(r=%v)) = %v with centre distance %.6f (sum of radii %v)", r, r2, gi, d, r+r2)
	}
	if circ.Intersects(other) != other.Intersects(circ) && math.Abs(d-(r+r2)) > t2 {
		return fw.Failf(label, "Circle.Intersects(Circle) is not symmetric")
	}
	// --- 4. serialisation ---
	js := circ.JSON()
	wantJS := `{"type":"Feature","geometry":{"type":"Point","coordinates":[` + fnum(lon) + `,` + fnum(lat) + `]},"properties":{"type":"Circle","radius":` + fnum(r) + `,"radius_units":"m"}}`
	if js != wantJS {
		return fw.Failf(label, "Circle.JSON() = %s, want the canonical form %s", js, wantJS)
	}
	back, err := geojson.Parse(js, nil)
	if err != nil {
		return fw.Failf(label, "Parse rejects Circle.JSON() %s: %v", js, err)
	}
	bc, ok := back.(*geojson.Circle)
	if !ok {
		return fw.Failf(label, "Circle.JSON() %s parses back to a %T", js, back)
	}
	if !sameF(bc.Center().X, lon) || !sameF(bc.Center().Y, lat) || !sameF(bc.Meters(), r) {
		return fw.Failf(label, "Circle round trip changed centre or radius: (%v,%v,%v) -> (%v,%v,%v)", lon, lat, r, bc.Center().X, bc.Center().Y, bc.Meters())
	}
	// the parsed-back circle, serialised first into a caller's buffer that the caller then reuses, still
	// serialises to the same text afterwards (the form is a function of centre and radius, not of call history)
	{
		buf := append(make([]byte, 0, 2*len(js)+32), "[0,"...)
		first := bc.AppendJSON(buf)
		for i, full := 0, first[:cap(first)]; i < len(full); i++ {
			full[i] = 'Z'
		}
		if again := bc.JSON(); again != js {
			return fw.Failf(label, "Circle serialised into a caller's buffer and then again gives %q, want %q", again, js)
		}
	}
	km := `{"type":"Feature","geometry":{"type":"Point","coordinates":[` + fnum(lon) + `,` + fnum(lat) + `]},"properties":{"type":"Circle","radius":` + fnum(r) + `,"radius_units":"km"}}`
	if ko, err := geojson.Parse(km, nil); err != nil {
		return fw.Failf(label, "Parse rejects the km form %s: %v", km, err)
	} else if kc, ok := ko.(*geojson.Circle); !ok || !sameF(kc.Meters(), r*1000) {
		return fw.Failf(label, "radius_units km: parsed %T with radius %v, want a Circle of %v m", ko, ko.(*geojson.Circle).Meters(), r*1000)
	}
	// --- 5. polygon approximation ---
	poly, ok := circ.Polygon().(*geojson.Polygon)
	if !ok {
		return fw.Failf(label, "Circle.Polygon() is a %T", circ.Polygon())
	}
	ext := poly.Base().Exterior
	n := ext.NumPoints()
	if n < 4 || ext.PointAt(0) != ext.PointAt(n-1) {
		return fw.Failf(label, "polygon approximation (steps %d) has %d positions, first %v last %v: not a closed ring of at least four positions", c.Steps, n, ext.PointAt(0), ext.PointAt(n-1))
	}
	for i := 0; i < n; i++ {
		if p := ext.PointAt(i); math.IsNaN(p.X) || math.IsNaN(p.Y) {
			return fw.Failf(label, "polygon approximation has a NaN position (centre (%v,%v) radius %v)", lat, lon, r)
		}
	}
	// the Circle's own rectangle is the tight box of the positions of its approximation (C11 read for a Circle)
	tight := geometry.Rect{Min: ext.PointAt(0), Max: ext.PointAt(0)}
	for i := 1; i < n; i++ {
		p := ext.PointAt(i)
		tight.Min.X, tight.Min.Y = math.Min(tight.Min.X, p.X), math.Min(tight.Min.Y, p.Y)
		tight.Max.X, tight.Max.Y = math.Max(tight.Max.X, p.X), math.Max(tight.Max.Y, p.Y)
	}
	if got := circ.Rect(); got != tight {
		return fw.Failf(label, "Circle.Rect() = %v, the tight box of the %d positions of its polygon approximation (steps %d) is %v", got, n, c.Steps, tight)
	}
	if rc := poly.Rect(); !rc.ContainsPoint(centre) {
		return fw.Failf(label, "the rectangle %v of the polygon approximation does not contain the centre (%v,%v), radius %v", rc, lon, lat, r)
	}
	if math.Abs(lat) > 85 || math.Abs(lon) > 175 {
		nt = true
	}
	return fw.OK(label, nt)
}

func fnum(f float64) string { return strconv.FormatFloat(f, 'f', -1, 64) }

func c13Gen(t *rapid.T) c13Case {
	c := c13Case{Kind: "general"}
	lat, lon := genLat(t, "lat"), genLon(t, "lon")
	var r float64
	switch rapid.IntRange(0, 5).Draw(t, "rkind") {
	case 0:
		r = rapid.SampledFrom([]float64{0, 1e-3, 1, 1000, piR, piR / 2, 0.5, 100000}).Draw(t, "rb")
		c.Kind = "boundary-radius"
	default:
		r = math.Pow(10, rapid.Float64Range(-3, math.Log10(piR)).Draw(t, "rexp"))
	}
	// probe at distance r(1 +- eps) at any bearing
	eps := math.Pow(10, -rapid.Float64Range(0, 12).Draw(t, "eps"))
	f := 1 + eps
	if rapid.Bool().Draw(t, "inside") {
		f = 1 - eps
	}
	if rapid.IntRange(0, 4).Draw(t, "far") == 0 {
		f = rapid.Float64Range(0, 3).Draw(t, "ffar")
	}
	pd := math.Min(r*f, piR*0.999999)
	brg := rapid.Float64Range(0, 360).Draw(t, "brg")
	if rapid.IntRange(0, 3).Draw(t, "cardinal") == 0 {
		brg = float64(rapid.IntRange(0, 7).Draw(t, "oct")) * 45
	}
	plat, plon := sphere.Destination(lat, lon, pd, brg).LatLon()
	c.R2 = F(math.Pow(10, rapid.Float64Range(-3, math.Log10(piR)).Draw(t, "r2exp")))
	switch rapid.IntRange(0, 3).Draw(t, "r2kind") {
	case 0: // second circle internally tangent: d = r - r2
		if v := r - pd; v > 0 {
			c.R2 = F(v * (1 + rapid.Float64Range(-1e-6, 1e-6).Draw(t, "j")))
		}
	case 1: // externally tangent: d = r + r2
		if v := pd - r; v > 0 {
			c.R2 = F(v * (1 + rapid.Float64Range(-1e-6, 1e-6).Draw(t, "j")))
		}
	case 2:
		c.R2 = F(r * rapid.Float64Range(0.5, 2).Draw(t, "r2f"))
	}
	if float64(c.R2) > piR {
		c.R2 = F(piR)
	}
	if rapid.IntRange(0, 11).Draw(t, "antipodal") == 0 {
		// two large circles whose centres are a few metres short of antipodal and whose radii add up to the centre
		// distance give or take a few metres: the distance has to be right to well under a metre up there too
		c.Kind = "near-antipodal"
		r = rapid.Float64Range(1e6, piR-1e6).Draw(t, "ra")
		pd = piR - rapid.Float64Range(0.05, 12).Draw(t, "short")
		plat, plon = sphere.Destination(lat, lon, pd, brg).LatLon()
		c.R2 = F(pd - r + rapid.SampledFrom([]float64{-5, -1.5, 1.5, 5}).Draw(t, "slack"))
	}
	if rapid.IntRange(0, 11).Draw(t, "zeror") == 0 {
		// a circle of radius zero (or next to nothing) and a point on its centre's parallel or meridian: one of the two
		// terms of the distance vanishes, the other must still keep the point out
		c.Kind = "zero-radius"
		r = rapid.SampledFrom([]float64{0, 0, 1e-9, 0.01}).Draw(t, "zr")
		off := rapid.SampledFrom([]float64{1e-4, 0.01, 1, 40, 90, 179}).Draw(t, "zoff")
		if rapid.Bool().Draw(t, "zneg") {
			off = -off
		}
		plat, plon = lat, lon
		if rapid.Bool().Draw(t, "zparallel") {
			plon = lon + off
			if plon > 180 {
				plon -= 360
			} else if plon < -180 {
				plon += 360
			}
		} else {
			plat = math.Max(-90, math.Min(90, lat+off/2))
		}
	}
	c.Lat, c.Lon, c.R, c.PLat, c.PLon = F(lat), F(lon), F(r), F(plat), F(plon)
	c.Steps = rapid.SampledFrom([]int{-1, 0, 2, 3, 4, 5, 6, 7, 10, 64, 64, 64, 99, 4096}).Draw(t, "steps")
	return c
}

func c13Subs() []fw.Sub {
	return []fw.Sub{fw.Prop[c13Case]{
		Name: "circle",
		Checks: func(tier string) int {
			if tier == "thorough" {
				return 600000
			}
			return 30000
		},
		Gen: c13Gen, Check: c13Check,
	}}
}

func TestC13(t *testing.T) { fw.Main(t, "C13", c13Subs(), nil) }

var _ = fmt.Sprint
