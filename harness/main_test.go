package harness

import (
	"fmt"
	"os"
	"strings"
	"testing"

	"verifharness/fw"
)

// TestMergeHashes is a driver helper: it unions the per-shard hash files named
// in VERIF_MERGE and prints the number of distinct non-trivial cases.
func TestMergeHashes(t *testing.T) {
	v := os.Getenv("VERIF_MERGE")
	if v == "" {
		t.Skip("driver helper")
	}
	fmt.Printf("DISTINCT %d\n", fw.MergeHashes(strings.Split(v, ":")))
}
