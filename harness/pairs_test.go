package harness

// Shared machinery for C02 / C03 / C12: evaluating one ordered pair at geometry
// and object level under its index configuration, oracle self-checks.

import (
	"fmt"
	"math/big"

	"github.com/tidwall/geojson/geometry"
	"verifharness/adapt"
	"verifharness/exact"
)

type pairLib struct {
	ga, gb   geometry.Geometry // as encoded
	ga0, gb0 geometry.Geometry // index-free
}

func buildPair(c *pairCase) pairLib {
	pl := pairLib{ga: adapt.Geom(&c.A, c.EA), gb: adapt.Geom(&c.B, c.EB)}
	pl.ga0, pl.gb0 = pl.ga, pl.gb
	if c.EA.IndexKind != 0 && c.EA.MinPoints != 0 {
		pl.ga0 = adapt.Geom(&c.A, adapt.Enc{Scale: c.EA.Scale})
	}
	if c.EB.IndexKind != 0 && c.EB.MinPoints != 0 {
		pl.gb0 = adapt.Geom(&c.B, adapt.Enc{Scale: c.EB.Scale})
	}
	return pl
}

func pairString(c *pairCase) string {
	return fmt.Sprintf("A=%v B=%v (scale 2^%d, index A %d/%d, B %d/%d)", &c.A, &c.B, c.EA.Scale, c.EA.IndexKind, c.EA.MinPoints, c.EB.IndexKind, c.EB.MinPoints)
}

// gridRefute searches the grid of points with denominators 1..3 inside the joint
// box for a point satisfying pred (oracle self-check for un-witnessed answers).
func gridRefute(A, B *exact.Shape, pred func(q exact.Q) bool) *exact.Q {
	a0, a1 := boxOf(A)
	b0, b1 := boxOf(B)
	x0, x1 := min(a0.X, b0.X), max(a1.X, b1.X)
	y0, y1 := min(a0.Y, b0.Y), max(a1.Y, b1.Y)
	if x1-x0 > 14 || y1-y0 > 14 {
		return nil
	}
	for _, d := range []int64{1, 2, 3} {
		for yn := y0 * d; yn <= y1*d; yn++ {
			for xn := x0 * d; xn <= x1*d; xn++ {
				var q exact.Q
				if xn%d == 0 && yn%d == 0 {
					q = exact.Lat(exact.P{X: xn / d, Y: yn / d})
				} else {
					q = exact.Q{X: big.NewRat(xn, d), Y: big.NewRat(yn, d)}
				}
				if pred(q) {
					return &q
				}
			}
		}
	}
	return nil
}
