package harness

import (
	"fmt"
	"reflect"

	"github.com/tidwall/geojson"
)

// parseWatched is geojson.Parse plus one invariant: Parse is a function of the text and of the option
// values, so the call must leave the options it was handed - or, for nil, the package's default options -
// exactly as they were (compared field by field, unexported fields included).  A flag flipped for the
// duration of a nested parse and not restored on an error path, or a "seen before" mark left in the caller's
// struct, changes what the NEXT call with the same options does; no single call shows it.
func parseWatched(text string, opts *geojson.ParseOptions) (geojson.Object, error, string) {
	watched := opts
	if watched == nil {
		watched = geojson.DefaultParseOptions
	}
	before := *watched
	obj, err := geojson.Parse(text, opts)
	if !reflect.DeepEqual(before, *watched) {
		which := "the ParseOptions value it was given"
		if opts == nil {
			which = "geojson.DefaultParseOptions"
		}
		msg := fmt.Sprintf("Parse changed %s from %+v to %+v; text %q", which, before, *watched, text)
		*watched = before // so that the following cases are not affected
		return obj, err, msg
	}
	return obj, err, ""
}
