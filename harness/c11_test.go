package harness

// C11 — bounding rectangle, centre, validity and emptiness are exact functions of the coordinates (DESIGN.md §4 C11).

import (
	"fmt"
	"math"
	"testing"

	"github.com/tidwall/geojson"
	"github.com/tidwall/geojson/geometry"
	"pgregory.net/rapid"
	"verifharness/fw"
)

type c11Case struct {
	Spec   objSpec `json:"spec"`
	Parsed bool    `json:"via_parse"` // build through JSON() -> Parse instead of using the constructed object
	// BBox > 0 (with Parsed): the text gets a "bbox" member that says something else than the positions do.
	// It is a foreign member: the box, the centre and the validity are functions of the positions alone.
	BBox int `json:"bbox,omitempty"`
}

var c11BBoxes = []string{`[-1000,-1000,1000,1000]`, `[5,5,6,6]`, `[0,0,0,0]`, `[1,2,3,4,5,6]`, `[179,89,181,91]`, `[7,7,3,3]`}

// positions of the non-empty parts, and whether the object is empty by the statement's rule
func (s *objSpec) modelPositions() (pts []fpt, empty bool) {
	switch s.Kind {
	case "Point", "PointZ", "SimplePoint":
		return s.Pts[:1], false
	case "Rect":
		return s.Pts[:2], false
	case "LineString":
		if len(s.Pts) < 2 {
			return nil, true
		}
		return s.Pts, false
	case "Polygon":
		if s.NilPoly || len(s.Rings) == 0 || len(s.Rings[0]) < 3 {
			return nil, true
		}
		for _, r := range s.Rings {
			pts = append(pts, r...)
		}
		return pts, false
	case "MultiPoint":
		return s.Pts, len(s.Pts) == 0
	case "MultiLineString":
		empty = true
		for _, r := range s.Rings {
			if len(r) >= 2 {
				pts = append(pts, r...)
				empty = false
			}
		}
		return pts, empty
	case "Feature":
		return s.Children[0].modelPositions()
	}
	// MultiPolygon, GeometryCollection, FeatureCollection
	empty = true
	for i := range s.Children {
		p, e := s.Children[i].modelPositions()
		if !e {
			pts = append(pts, p...)
			empty = false
		}
	}
	return pts, empty
}

func c11Check(c c11Case) fw.Outcome {
	obj := c.Spec.build()
	label := c.Spec.Kind
	if c.Parsed {
		// the representation options may change the concrete type, never the box, centre, validity or emptiness
		text := obj.JSON()
		if c.BBox > 0 && len(text) > 2 {
			text = `{"bbox":` + c11BBoxes[(c.BBox-1)%len(c11BBoxes)] + `,` + text[1:]
		}
		o2, err := geojson.Parse(text, &geojson.ParseOptions{IndexChildren: 2, IndexGeometry: 4, IndexGeometryKind: geometry.RTree,
			AllowSimplePoints: c.Spec.Kind != "Feature", AllowRects: true})
		if err != nil {
			return fw.Outcome{Label: label + "/not-parseable", Skip: true} // e.g. rings shorter than 4 positions
		}
		obj = o2
		label += "/parsed"
	}
	pts, wantEmpty := c.Spec.modelPositions()
	if got := obj.Empty(); got != wantEmpty {
		return fw.Failf(label, "Empty() = %v, want %v for %s", got, wantEmpty, obj.JSON())
	}
	if len(pts) == 0 {
		return fw.OK(label+"/no-positions", false)
	}
	minX, minY, maxX, maxY := math.Inf(1), math.Inf(1), math.Inf(-1), math.Inf(-1)
	valid := true
	argX, argY := 0, 0
	for i, p := range pts {
		x, y := float64(p.X), float64(p.Y)
		if x < minX {
			minX = x
		}
		if x > maxX {
			maxX, argX = x, i
		}
		if y < minY {
			minY = y
		}
		if y > maxY {
			maxY, argY = y, i
		}
		if !(x >= -180 && x <= 180 && y >= -90 && y <= 90) {
			valid = false
		}
	}
	// a hole that sticks out of its exterior's box is not a valid polygon; whether Rect() must cover it is left
	// unasserted (the library boxes the exterior), Valid() and Empty() are still asserted
	boxAsserted := c.Spec.holesInsideBox()
	if !boxAsserted {
		label += "/hole-outside-exterior-box"
	}
	r := obj.Rect()
	if boxAsserted && (r.Min.X != minX || r.Min.Y != minY || r.Max.X != maxX || r.Max.Y != maxY) {
		return fw.Failf(label, "Rect() = %v, min/max over the positions give [%v %v] [%v %v]; object %s", r, minX, minY, maxX, maxY, obj.JSON())
	}
	// Center: the position itself for points, else the box's midpoint (same single expression; skipped on overflow)
	cx, cy := (maxX+minX)/2, (maxY+minY)/2
	if boxAsserted && !math.IsInf(cx, 0) && !math.IsInf(cy, 0) {
		if got := obj.Center(); got.X != cx || got.Y != cy {
			return fw.Failf(label, "Center() = %v, midpoint of the box is (%v,%v); object %s", got, cx, cy, obj.JSON())
		}
	}
	if k := c.Spec.Kind; (k == "Point" || k == "PointZ" || k == "SimplePoint") && len(pts) == 1 {
		// "the position itself for points": also where the midpoint expression would overflow
		if got, want := obj.Center(), (geometry.Point{X: float64(pts[0].X), Y: float64(pts[0].Y)}); got != want {
			return fw.Failf(label, "Center() = %v of a point at %v; object %s", got, want, obj.JSON())
		}
	}
	// a position of an *empty* part (a one-position line inside a collection) that is out of
	// range: whether it must make the collection invalid is left unasserted (DESIGN.md §7)
	if allValid := c.Spec.allPositionsValid(); allValid == valid {
		if got := obj.Valid(); got != valid {
			return fw.Failf(label, "Valid() = %v, want %v (every position within [-180,180]x[-90,90]); object %s", got, valid, obj.JSON())
		}
	} else {
		label += "/invalid-position-in-empty-part"
	}
	nt := len(pts) >= 2 && (argX != 0 || argY != 0)
	return fw.OK(label, nt)
}

var finitePool = []float64{0, math.Copysign(0, -1), 1, -1, 180, -180, 90, -90, 180.0000001, -180.0000001, 90.0000001, -90.0000001, 179.9999999, 89.9999999,
	math.MaxFloat64 / 4, -math.MaxFloat64 / 4, math.MaxFloat64, -math.MaxFloat64, 1e308, math.SmallestNonzeroFloat64, -math.SmallestNonzeroFloat64, 1e-300, 1e300, 45, -45, 0.5, 100, -100}

func genFinite(t *rapid.T, label string) F {
	switch rapid.IntRange(0, 4).Draw(t, label+"_m") {
	case 0:
		return F(rapid.SampledFrom(finitePool).Draw(t, label+"_pool"))
	case 1:
		return F(rapid.Float64Range(-200, 200).Draw(t, label+"_f"))
	}
	return F(rapid.IntRange(-100, 100).Draw(t, label+"_i"))
}

func genFinitePts(t *rapid.T, lo, hi int, label string) []fpt {
	n := rapid.IntRange(lo, hi).Draw(t, label+"_n")
	out := make([]fpt, n)
	for i := range out {
		out[i] = fpt{genFinite(t, label+"x"), genFinite(t, label+"y")}
	}
	return out
}

// genRingsInBox: an exterior ring and holes whose positions stay inside the exterior's box.
func genRingsFinite(t *rapid.T) [][]fpt {
	ext := genFinitePts(t, 0, 6, "ext")
	if len(ext) >= 3 && rapid.Bool().Draw(t, "closeext") {
		ext = append(ext, ext[0])
	}
	rings := [][]fpt{ext}
	if len(ext) < 3 {
		return rings
	}
	minX, minY, maxX, maxY := math.Inf(1), math.Inf(1), math.Inf(-1), math.Inf(-1)
	for _, p := range ext {
		minX, maxX = math.Min(minX, float64(p.X)), math.Max(maxX, float64(p.X))
		minY, maxY = math.Min(minY, float64(p.Y)), math.Max(maxY, float64(p.Y))
	}
	for h := rapid.IntRange(0, 2).Draw(t, "nholes"); h > 0; h-- {
		var hole []fpt
		for i := rapid.IntRange(0, 5).Draw(t, "hn"); i > 0; i-- {
			fx, fy := rapid.Float64Range(0, 1).Draw(t, "hx"), rapid.Float64Range(0, 1).Draw(t, "hy")
			x, y := minX+fx*(maxX-minX), minY+fy*(maxY-minY)
			if math.IsNaN(x) || math.IsInf(x, 0) || x < minX || x > maxX {
				x = minX
			}
			if math.IsNaN(y) || math.IsInf(y, 0) || y < minY || y > maxY {
				y = minY
			}
			hole = append(hole, fpt{F(x), F(y)})
		}
		if len(hole) > 0 && rapid.IntRange(0, 9).Draw(t, "holeout") == 0 {
			// a hole position outside the exterior's box (possibly out of range): only Valid / Empty are asserted then
			hole[rapid.IntRange(0, len(hole)-1).Draw(t, "hoi")] = fpt{genFinite(t, "hox"), genFinite(t, "hoy")}
		}
		rings = append(rings, hole)
	}
	return rings
}

func genFiniteSpec(t *rapid.T, depth int) objSpec {
	kinds := []string{"Point", "PointZ", "SimplePoint", "LineString", "Polygon", "Rect", "MultiPoint", "MultiLineString", "MultiPolygon"}
	if depth > 0 {
		kinds = append(kinds, "GeometryCollection", "FeatureCollection", "Feature", "GeometryCollection")
	}
	s := objSpec{Kind: rapid.SampledFrom(kinds).Draw(t, "okind")}
	switch s.Kind {
	case "Point", "SimplePoint", "PointZ":
		s.Pts = genFinitePts(t, 1, 1, "p")
	case "LineString":
		s.Pts = genFinitePts(t, 0, 6, "l")
	case "Polygon":
		s.Rings = genRingsFinite(t)
		if rapid.IntRange(0, 3).Draw(t, "rectlike") == 0 {
			// five positions, axis-aligned from the min corner counter-clockwise, sometimes with one vertex moved
			x0, y0 := float64(rapid.IntRange(-50, 50).Draw(t, "rx")), float64(rapid.IntRange(-50, 50).Draw(t, "ry"))
			x1, y1 := x0+float64(rapid.IntRange(1, 40).Draw(t, "rw")), y0+float64(rapid.IntRange(1, 40).Draw(t, "rh"))
			ring := []fpt{{F(x0), F(y0)}, {F(x1), F(y0)}, {F(x1), F(y1)}, {F(x0), F(y1)}, {F(x0), F(y0)}}
			if rapid.Bool().Draw(t, "moved") {
				i := rapid.IntRange(1, 3).Draw(t, "mv")
				d := F(rapid.SampledFrom([]float64{-7, -1, 1, 5, 60}).Draw(t, "md"))
				if rapid.Bool().Draw(t, "mx") {
					ring[i].X += d
				} else {
					ring[i].Y += d
				}
			}
			s.Rings = [][]fpt{ring}
		}
	case "Rect":
		a := genFinitePts(t, 2, 2, "r")
		lo := fpt{F(math.Min(float64(a[0].X), float64(a[1].X))), F(math.Min(float64(a[0].Y), float64(a[1].Y)))}
		hi := fpt{F(math.Max(float64(a[0].X), float64(a[1].X))), F(math.Max(float64(a[0].Y), float64(a[1].Y)))}
		s.Pts = []fpt{lo, hi}
	case "MultiPoint":
		s.Pts = genFinitePts(t, 0, 5, "mp")
	case "MultiLineString":
		for i := rapid.IntRange(0, 4).Draw(t, "nlines"); i > 0; i-- {
			s.Rings = append(s.Rings, genFinitePts(t, 0, 4, "ml"))
		}
	case "MultiPolygon":
		for i := rapid.IntRange(0, 3).Draw(t, "npolys"); i > 0; i-- {
			s.Children = append(s.Children, objSpec{Kind: "Polygon", Rings: genRingsFinite(t)})
		}
	case "GeometryCollection", "FeatureCollection":
		for i := rapid.IntRange(0, 4).Draw(t, "nchildren"); i > 0; i-- {
			s.Children = append(s.Children, genFiniteSpec(t, depth-1))
		}
	case "Feature":
		s.Children = []objSpec{genFiniteSpec(t, depth-1)}
	}
	return s
}

func c11Gen(t *rapid.T) c11Case {
	c := c11Case{Spec: genFiniteSpec(t, 3), Parsed: rapid.IntRange(0, 2).Draw(t, "parsed") == 0}
	if c.Parsed && rapid.IntRange(0, 2).Draw(t, "bbox_m") == 0 {
		c.BBox = rapid.IntRange(1, len(c11BBoxes)).Draw(t, "bbox")
	}
	return c
}

// segment and rect level (geometry package)
type c11Seg struct {
	A fpt `json:"a"`
	B fpt `json:"b"`
}

func c11SegCheck(c c11Seg) fw.Outcome {
	s := geometry.Segment{A: c.A.g(), B: c.B.g()}
	r := s.Rect()
	w := geometry.Rect{Min: geometry.Point{X: math.Min(s.A.X, s.B.X), Y: math.Min(s.A.Y, s.B.Y)}, Max: geometry.Point{X: math.Max(s.A.X, s.B.X), Y: math.Max(s.A.Y, s.B.Y)}}
	if r.Min.X != w.Min.X || r.Min.Y != w.Min.Y || r.Max.X != w.Max.X || r.Max.Y != w.Max.Y {
		return fw.Failf("segment", "Segment%v.Rect() = %v, want %v", s, r, w)
	}
	ro := geojson.NewRect(w)
	if got, want := ro.Center(), (geometry.Point{X: (w.Max.X + w.Min.X) / 2, Y: (w.Max.Y + w.Min.Y) / 2}); got != want && !math.IsInf(want.X, 0) && !math.IsInf(want.Y, 0) {
		return fw.Failf("segment", "Rect%v.Center() = %v, want %v", w, got, want)
	}
	return fw.OK("segment", s.A.X > s.B.X || s.A.Y > s.B.Y)
}

func c11Subs() []fw.Sub {
	n := func(q, th int) func(string) int {
		return func(tier string) int {
			if tier == "thorough" {
				return th
			}
			return q
		}
	}
	return []fw.Sub{
		fw.Prop[c11Case]{Name: "rect-center-valid-empty", Checks: n(40000, 800000), Gen: c11Gen, Check: c11Check},
		fw.Prop[c11Seg]{Name: "segment-rect", Checks: n(10000, 200000), Gen: func(t *rapid.T) c11Seg {
			return c11Seg{A: fpt{genFinite(t, "ax"), genFinite(t, "ay")}, B: fpt{genFinite(t, "bx"), genFinite(t, "by")}}
		}, Check: c11SegCheck},
		fw.Prop[c11NF]{Name: "valid-nonfinite", Checks: n(8000, 150000), Gen: c11NFGen, Check: c11NFCheck},
	}
}

// c11NF: an object with one NaN / infinite ordinate in a part that occupies space.  NaN and the
// infinities are not within [-180,180] x [-90,90], so Valid() is false (Rect and Center are not asserted:
// min / max over NaN is not defined by the statement).
type c11NF struct {
	Spec objSpec `json:"spec"`
}

func specSlots(s *objSpec, out []*fpt) []*fpt {
	for i := range s.Pts {
		out = append(out, &s.Pts[i])
	}
	for i := range s.Rings {
		for j := range s.Rings[i] {
			out = append(out, &s.Rings[i][j])
		}
	}
	for i := range s.Children {
		out = specSlots(&s.Children[i], out)
	}
	return out
}

func c11NFGen(t *rapid.T) c11NF {
	c := c11NF{Spec: genFiniteSpec(t, 2)}
	if slots := specSlots(&c.Spec, nil); len(slots) > 0 {
		p := slots[rapid.IntRange(0, len(slots)-1).Draw(t, "slot")]
		v := F(rapid.SampledFrom([]float64{math.NaN(), math.Inf(1), math.Inf(-1)}).Draw(t, "nonfinite"))
		if rapid.Bool().Draw(t, "axis") {
			p.X = v
		} else {
			p.Y = v
		}
	}
	return c
}

func c11NFCheck(c c11NF) fw.Outcome {
	obj := c.Spec.build()
	pts, _ := c.Spec.modelPositions()
	bad := false
	for _, p := range pts {
		for _, v := range []float64{float64(p.X), float64(p.Y)} {
			if math.IsNaN(v) || math.IsInf(v, 0) {
				bad = true
			}
		}
	}
	if !bad {
		return fw.Outcome{Label: "non-finite ordinate not in an occupied part", Skip: true}
	}
	if obj.Valid() {
		return fw.Failf(c.Spec.Kind, "Valid() = true for an object with a NaN / infinite ordinate in an occupied part: %s", obj.JSON())
	}
	return fw.OK(c.Spec.Kind+"/non-finite", true)
}

func TestC11(t *testing.T) { fw.Main(t, "C11", c11Subs(), nil) }

var _ = fmt.Sprint

func (s *objSpec) allPositionsValid() bool {
	ok := func(p fpt) bool { return p.X >= -180 && p.X <= 180 && p.Y >= -90 && p.Y <= 90 }
	for _, p := range s.Pts {
		if !ok(p) {
			return false
		}
	}
	for _, r := range s.Rings {
		for _, p := range r {
			if !ok(p) {
				return false
			}
		}
	}
	for i := range s.Children {
		if !s.Children[i].allPositionsValid() {
			return false
		}
	}
	return true
}

// holesInsideBox reports whether every hole position of every polygon lies inside its exterior's box (then
// the library's exterior-only box equals the box of all positions).
func (s *objSpec) holesInsideBox() bool {
	if s.Kind == "Polygon" && len(s.Rings) > 1 && len(s.Rings[0]) > 0 {
		minX, minY, maxX, maxY := math.Inf(1), math.Inf(1), math.Inf(-1), math.Inf(-1)
		for _, p := range s.Rings[0] {
			minX, maxX = math.Min(minX, float64(p.X)), math.Max(maxX, float64(p.X))
			minY, maxY = math.Min(minY, float64(p.Y)), math.Max(maxY, float64(p.Y))
		}
		for _, h := range s.Rings[1:] {
			for _, p := range h {
				if float64(p.X) < minX || float64(p.X) > maxX || float64(p.Y) < minY || float64(p.Y) > maxY {
					return false
				}
			}
		}
	}
	for i := range s.Children {
		if !s.Children[i].holesInsideBox() {
			return false
		}
	}
	return true
}
