package harness

// C15 — great-circle primitives are mutually consistent (DESIGN.md §4 C15).

import (
	"fmt"
	"math"
	"testing"

	"github.com/tidwall/geojson/geo"
	"pgregory.net/rapid"
	"verifharness/fw"
	"verifharness/sphere"
)

const piR = math.Pi * sphere.R

type c15Case struct {
	LatA F      `json:"lat_a"`
	LonA F      `json:"lon_a"`
	LatB F      `json:"lat_b"`
	LonB F      `json:"lon_b"`
	D    F      `json:"metres"`
	Brg  F      `json:"bearing"`
	D2   F      `json:"metres2"`
	Kind string `json:"kind"`
}

func tolDist(d float64) float64 { return math.Max(1e-3, 1e-6*math.Abs(d)) }

func lonDiff(a, b float64) float64 {
	d := math.Mod(a-b, 360)
	if d > 180 {
		d -= 360
	}
	if d < -180 {
		d += 360
	}
	return d
}

func c15Check(c c15Case) fw.Outcome {
	latA, lonA, latB, lonB := float64(c.LatA), float64(c.LonA), float64(c.LatB), float64(c.LonB)
	d, brg, d2 := float64(c.D), float64(c.Brg), float64(c.D2)
	label := c.Kind
	// --- distance ---
	dab := geo.DistanceTo(latA, lonA, latB, lonB)
	dba := geo.DistanceTo(latB, lonB, latA, lonA)
	want := sphere.Distance(latA, lonA, latB, lonB)
	if !(dab >= 0 && dab <= piR+tolDist(piR)) {
		return fw.Failf(label, "DistanceTo(%v,%v,%v,%v) = %v, outside [0, piR]", latA, lonA, latB, lonB, dab)
	}
	if math.Abs(dab-dba) > tolDist(dab) || math.IsNaN(dba) {
		return fw.Failf(label, "DistanceTo not symmetric: %v vs %v for (%v,%v) (%v,%v)", dab, dba, latA, lonA, latB, lonB)
	}
	if math.Abs(dab-want) > tolDist(want) {
		return fw.Failf(label, "DistanceTo(%v,%v,%v,%v) = %v, unit-vector model %v (diff %.3g m)", latA, lonA, latB, lonB, dab, want, dab-want)
	}
	if z := geo.DistanceTo(latA, lonA, latA, lonA); z != 0 {
		return fw.Failf(label, "DistanceTo of identical locations (%v,%v) = %v", latA, lonA, z)
	}
	// --- destination ---
	dl, do := geo.DestinationPoint(latA, lonA, d, brg)
	if !(dl >= -90 && dl <= 90 && do >= -180 && do <= 180) {
		return fw.Failf(label, "DestinationPoint(%v,%v,%v,%v) = (%v,%v), outside [-90,90]x[-180,180]", latA, lonA, d, brg, dl, do)
	}
	nearPole := func(lat float64) bool { return (90-math.Abs(lat))*sphere.R*math.Pi/180 < 1000 }
	wv := sphere.Destination(latA, lonA, d, brg)
	gv := sphere.FromLatLon(dl, do)
	// the position is compared with the model only where the bearing means something (start away from the poles)
	if off := sphere.GroundDistanceVec(wv, gv); !nearPole(latA) && off > tolDist(d) {
		return fw.Failf(label, "DestinationPoint(%v,%v,%v,%v) = (%v,%v) is %.4g m away from the unit-vector model", latA, lonA, d, brg, dl, do, off)
	}
	back := geo.DistanceTo(latA, lonA, dl, do)
	if !(math.Abs(back-d) <= 2*tolDist(d)) {
		return fw.Failf(label, "distance back from DestinationPoint(%v,%v,%v,%v)=(%v,%v) is %v, travelled %v", latA, lonA, d, brg, dl, do, back, d)
	}
	// bearing back: d >= 1 m, start and destination 1 km away from the poles, destination 1 km from the antipode
	if d >= 1 && !nearPole(latA) && !nearPole(dl) && piR-d > 1000 {
		b := geo.BearingTo(latA, lonA, dl, do)
		if !(b >= 0 && b < 360.0000001) {
			return fw.Failf(label, "BearingTo = %v outside [0,360)", b)
		}
		// conditioning: the destination is known to ~1e-9 rad (degrees rounding ~1e-14 rel, model 1e-9 m);
		// the bearing error scales with 1/sin(d/R)
		tolB := 1e-6 / math.Abs(math.Sin(d/sphere.R))
		if tolB > 1 {
			tolB = 1
		}
		if math.Abs(lonDiff(b, math.Mod(brg, 360))) > tolB {
			return fw.Failf(label, "BearingTo start->destination = %v, travelled along %v (tol %.3g) for DestinationPoint(%v,%v,%v)", b, brg, tolB, latA, lonA, d)
		}
		if wb := sphere.Bearing(latA, lonA, dl, do); math.Abs(lonDiff(b, wb)) > tolB {
			return fw.Failf(label, "BearingTo(%v,%v,%v,%v) = %v, unit-vector model %v", latA, lonA, dl, do, b, wb)
		}
	}
	// --- haversine ---
	h1, h2 := geo.DistanceToHaversine(d), geo.DistanceToHaversine(d2)
	if d2-d > tolDist(d2) && !(h2 > h1) {
		return fw.Failf(label, "haversine not strictly increasing: h(%v)=%v, h(%v)=%v", d, h1, d2, h2)
	}
	if rt := geo.DistanceFromHaversine(h1); !(math.Abs(rt-d) <= tolDist(d)) {
		return fw.Failf(label, "DistanceFromHaversine(DistanceToHaversine(%v)) = %v", d, rt)
	}
	if hh := geo.Haversine(latA, lonA, latB, lonB); !(math.Abs(geo.DistanceFromHaversine(hh)-dab) <= tolDist(dab)) {
		return fw.Failf(label, "DistanceFromHaversine(Haversine(..)) = %v differs from DistanceTo = %v", geo.DistanceFromHaversine(hh), dab)
	}
	// --- normalisation (any d up to 100 turns) ---
	big := d * (1 + float64(int64(math.Abs(brg))%100))
	n1 := geo.NormalizeDistance(big)
	if n2 := geo.NormalizeDistance(n1); n2 != n1 {
		return fw.Failf(label, "NormalizeDistance not idempotent: %v -> %v -> %v", big, n1, n2)
	}
	if !(n1 >= 0 && n1 < 2*piR*(1+1e-15)) {
		return fw.Failf(label, "NormalizeDistance(%v) = %v is outside [0, one circumference)", big, n1)
	}
	// within a few ulps of a whole number of circumferences, where a quotient-based reduction rounds the wrong way
	{
		k := 1 + float64(int64(math.Abs(brg)*7)%200)
		m := k * 2 * piR
		for i := int64(math.Abs(d)) % 5; i > 0; i-- {
			m = math.Nextafter(m, 0)
		}
		if int64(math.Abs(brg))%2 == 0 {
			m = math.Nextafter(math.Nextafter(m, math.Inf(1)), math.Inf(1))
		}
		a1 := geo.NormalizeDistance(m)
		if a2 := geo.NormalizeDistance(a1); a2 != a1 || !(a1 >= 0 && a1 < 2*piR*(1+1e-15)) {
			return fw.Failf(label, "NormalizeDistance near %v circumferences: %v -> %v -> %v (not idempotent or outside [0, one circumference))", k, m, a1, a2)
		}
	}
	hb, hn := geo.DistanceToHaversine(big), geo.DistanceToHaversine(n1)
	if !(math.Abs(hb-hn) <= (big/sphere.R+4)*math.Pow(2, -51)) {
		return fw.Failf(label, "NormalizeDistance changes the haversine: h(%v)=%v, h(%v)=%v", big, hb, n1, hn)
	}
	// --- semicircles ---
	for _, v := range []struct {
		name string
		degs float64
		lat  float64
	}{{"lat", latA, 0}, {"lon", lonA, latA}} {
		rt := geo.SemiToDegs(geo.DegsToSemi(v.degs))
		diff := math.Abs(lonDiff(rt, v.degs)) * sphere.R * math.Pi / 180
		if v.name == "lon" {
			diff *= math.Cos(v.lat * math.Pi / 180)
		} else {
			diff = math.Abs(rt-v.degs) * sphere.R * math.Pi / 180
		}
		if !(diff <= 0.02) {
			return fw.Failf(label, "semicircle round trip of %s %v gives %v (%.3g m on the ground)", v.name, v.degs, rt, diff)
		}
	}
	return fw.OK(label, c.Kind != "general")
}

func genLat(t *rapid.T, label string) float64 {
	switch rapid.IntRange(0, 7).Draw(t, label+"_m") {
	case 0:
		return rapid.SampledFrom([]float64{90, -90, 0, 89.99999, -89.99999, 45, 89.9, -89.9}).Draw(t, label+"_c")
	case 1:
		return 90 - math.Pow(10, -rapid.Float64Range(0, 12).Draw(t, label+"_e"))
	case 2:
		return -90 + math.Pow(10, -rapid.Float64Range(0, 12).Draw(t, label+"_e"))
	}
	return rapid.Float64Range(-90, 90).Draw(t, label)
}

func genLon(t *rapid.T, label string) float64 {
	switch rapid.IntRange(0, 7).Draw(t, label+"_m") {
	case 0:
		return rapid.SampledFrom([]float64{180, -180, 0, 179.99999, -179.99999, 90, -90}).Draw(t, label+"_c")
	case 1:
		return 180 - math.Pow(10, -rapid.Float64Range(0, 12).Draw(t, label+"_e"))
	case 2:
		return -180 + math.Pow(10, -rapid.Float64Range(0, 12).Draw(t, label+"_e"))
	}
	return rapid.Float64Range(-180, 180).Draw(t, label)
}

func genDist(t *rapid.T, label string) float64 {
	switch rapid.IntRange(0, 6).Draw(t, label+"_m") {
	case 0:
		return rapid.SampledFrom([]float64{0, 1e-3, 1, 1000, piR / 2, piR * 0.999999, 1e-6, 0.5}).Draw(t, label+"_c")
	case 1: // log-uniform
		return math.Pow(10, rapid.Float64Range(-6, math.Log10(piR)).Draw(t, label+"_e")) * 0.999999
	case 2: // just below half the circumference
		return piR - math.Pow(10, rapid.Float64Range(-3, 6).Draw(t, label+"_f"))
	}
	return rapid.Float64Range(0, piR*0.9999999).Draw(t, label)
}

func c15Gen(t *rapid.T) c15Case {
	c := c15Case{Kind: "general"}
	latA, lonA := genLat(t, "latA"), genLon(t, "lonA")
	latB, lonB := genLat(t, "latB"), genLon(t, "lonB")
	d := genDist(t, "d")
	brg := rapid.Float64Range(0, 359.999999).Draw(t, "brg")
	switch rapid.IntRange(0, 7).Draw(t, "kind") {
	case 0: // antipodal +- eps
		eps := math.Pow(10, -rapid.Float64Range(0, 16).Draw(t, "eps"))
		if rapid.IntRange(0, 2).Draw(t, "exact") == 0 {
			eps = 0
		}
		latB, lonB = -latA+eps*rapid.Float64Range(-1, 1).Draw(t, "e1"), lonA+180+eps*rapid.Float64Range(-1, 1).Draw(t, "e2")
		if lonB > 180 {
			lonB -= 360
		}
		latB = math.Max(-90, math.Min(90, latB))
		c.Kind = "antipodal"
	case 1: // identical / very close
		eps := math.Pow(10, -rapid.Float64Range(3, 16).Draw(t, "eps"))
		latB, lonB = math.Max(-90, math.Min(90, latA+eps)), lonA
		c.Kind = "very-close"
	case 2: // bearing an exact multiple of 90
		brg = float64(rapid.IntRange(0, 3).Draw(t, "q")) * 90
		c.Kind = "cardinal-bearing"
	case 3: // the distance that lands exactly on a pole, heading north or south
		if rapid.Bool().Draw(t, "north") {
			brg, d = 0, (90-latA)*math.Pi/180*sphere.R
		} else {
			brg, d = 180, (90+latA)*math.Pi/180*sphere.R
		}
		d *= 1 + rapid.Float64Range(-1e-9, 1e-9).Draw(t, "jit")
		if d >= piR {
			d = piR * 0.999
		}
		c.Kind = "pole-landing"
	case 4:
		c.Kind = "scale-change"
		d = rapid.SampledFrom([]float64{1, 1000, piR}).Draw(t, "scale") * math.Pow(10, rapid.Float64Range(-3, 0).Draw(t, "f"))
	}
	if math.Abs(latA) > 89.9 || math.Abs(lonA) > 179.9 {
		if c.Kind == "general" {
			c.Kind = "pole-or-antimeridian"
		}
	}
	d2 := genDist(t, "d2")
	if rapid.Bool().Draw(t, "d2near") {
		d2 = math.Min(piR, d+tolDist(d)*rapid.Float64Range(1.01, 50).Draw(t, "d2f"))
	}
	c.LatA, c.LonA, c.LatB, c.LonB, c.D, c.Brg, c.D2 = F(latA), F(lonA), F(latB), F(lonB), F(d), F(brg), F(d2)
	return c
}

// c15AntipodalScan enumerates exact antipodal pairs on two low-discrepancy sequences: the
// haversine of such a pair rounds above 1 for roughly one pair in 10^5.
func c15AntipodalScan(tier string, yield func(c15Case) bool) {
	n := 1500000
	if tier == "thorough" {
		n = 30000000
	}
	for i := 0; i < n; i++ {
		lat := -90 + 180*math.Mod(float64(i)*0.7548776662466927, 1)
		lon := -180 + 360*math.Mod(float64(i)*0.5698402909980532, 1)
		lb := lon + 180
		if lb > 180 {
			lb -= 360
		}
		c := c15Case{LatA: F(lat), LonA: F(lon), LatB: F(-lat), LonB: F(lb), D: F(piR * math.Mod(float64(i)*0.6180339887498949, 1)),
			Brg: F(360 * math.Mod(float64(i)*0.3247179572447460, 1)), Kind: "antipodal-exact"}
		c.D2 = c.D
		if !yield(c) {
			return
		}
	}
}

func c15Subs() []fw.Sub {
	return []fw.Sub{fw.Prop[c15Case]{
		Name:  "antipodal-scan",
		Enum:  c15AntipodalScan,
		Check: c15Check,
	}, fw.Prop[c15Case]{
		Name: "great-circle",
		Checks: func(tier string) int {
			if tier == "thorough" {
				return 3000000
			}
			return 150000
		},
		Gen: c15Gen, Check: c15Check,
	}}
}

func TestC15(t *testing.T) { fw.Main(t, "C15", c15Subs(), nil) }

var _ = fmt.Sprint
