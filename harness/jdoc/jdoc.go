// Package jdoc reads a JSON text with encoding/json's tokenizer into an ordered
// tree that keeps member order, duplicate members and number literals.  It is
// the "standard JSON decoder" side of the C06/C07 oracles.
package jdoc

import (
	"encoding/json"
	"errors"
	"fmt"
	"io"
	"strings"
)

type Kind int

const (
	Null Kind = iota
	Bool
	Number
	String
	Array
	Object
)

func (k Kind) String() string {
	return [...]string{"null", "bool", "number", "string", "array", "object"}[k]
}

type Member struct {
	Key string // decoded key
	Val *Value
}

type Value struct {
	Kind Kind
	B    bool
	Num  string // number literal as written
	Str  string
	Arr  []*Value
	Obj  []Member // in document order, duplicates kept
}

// Parse decodes exactly one JSON value (surrounding whitespace allowed).
func Parse(text string) (*Value, error) {
	if !json.Valid([]byte(text)) {
		return nil, errors.New("not valid JSON")
	}
	dec := json.NewDecoder(strings.NewReader(text))
	dec.UseNumber()
	v, err := read(dec)
	if err != nil {
		return nil, err
	}
	return v, nil
}

func read(dec *json.Decoder) (*Value, error) {
	tok, err := dec.Token()
	if err != nil {
		return nil, err
	}
	switch t := tok.(type) {
	case nil:
		return &Value{Kind: Null}, nil
	case bool:
		return &Value{Kind: Bool, B: t}, nil
	case json.Number:
		return &Value{Kind: Number, Num: string(t)}, nil
	case string:
		return &Value{Kind: String, Str: t}, nil
	case json.Delim:
		switch t {
		case '[':
			v := &Value{Kind: Array}
			for dec.More() {
				e, err := read(dec)
				if err != nil {
					return nil, err
				}
				v.Arr = append(v.Arr, e)
			}
			if _, err := dec.Token(); err != nil {
				return nil, err
			}
			return v, nil
		case '{':
			v := &Value{Kind: Object}
			for dec.More() {
				kt, err := dec.Token()
				if err != nil {
					return nil, err
				}
				k, ok := kt.(string)
				if !ok {
					return nil, fmt.Errorf("non-string key %v", kt)
				}
				e, err := read(dec)
				if err != nil {
					return nil, err
				}
				v.Obj = append(v.Obj, Member{Key: k, Val: e})
			}
			if _, err := dec.Token(); err != nil {
				return nil, err
			}
			return v, nil
		}
	}
	return nil, io.ErrUnexpectedEOF
}

// Get returns the last member with the given key (for duplicate members the last one counts).
func (v *Value) Get(key string) *Value {
	if v == nil || v.Kind != Object {
		return nil
	}
	for i := len(v.Obj) - 1; i >= 0; i-- {
		if v.Obj[i].Key == key {
			return v.Obj[i].Val
		}
	}
	return nil
}

// Count returns how many members have the key.
func (v *Value) Count(key string) int {
	n := 0
	if v != nil && v.Kind == Object {
		for _, m := range v.Obj {
			if m.Key == key {
				n++
			}
		}
	}
	return n
}

// Equal compares two values structurally; numbers by their float64 value bit for bit
// when both parse, else by literal.
func Equal(a, b *Value, numEq func(x, y string) bool) bool {
	if a == nil || b == nil {
		return a == b
	}
	if a.Kind != b.Kind {
		return false
	}
	switch a.Kind {
	case Bool:
		return a.B == b.B
	case Number:
		return numEq(a.Num, b.Num)
	case String:
		return a.Str == b.Str
	case Array:
		if len(a.Arr) != len(b.Arr) {
			return false
		}
		for i := range a.Arr {
			if !Equal(a.Arr[i], b.Arr[i], numEq) {
				return false
			}
		}
	case Object:
		if len(a.Obj) != len(b.Obj) {
			return false
		}
		for i := range a.Obj {
			if a.Obj[i].Key != b.Obj[i].Key || !Equal(a.Obj[i].Val, b.Obj[i].Val, numEq) {
				return false
			}
		}
	}
	return true
}
