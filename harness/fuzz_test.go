package harness

// Native (coverage-guided) fuzz targets, used by the thorough tiers of C02/C03, C05, C06 and C07.
// Each target carries its oracle; the saved failing input is the reproducible unit.

import (
	"testing"

	"github.com/tidwall/geojson"
	"github.com/tidwall/geojson/geometry"
	"pgregory.net/rapid"
	"verifharness/fw"
	"verifharness/refjson"
)

var fuzzSeeds = []string{
	`{"type":"Point","coordinates":[1,2]}`, `{"type":"Point","coordinates":[1,2,3,4],"id":"a"}`,
	`{"type":"LineString","coordinates":[[0,0],[10,0,1]]}`, `{"type":"LineString","coordinates":[[0,0,5],[10,0]],"bbox":[0,0,1,1]}`,
	`{"type":"Polygon","coordinates":[[[0,0],[10,0],[10,10],[0,10],[0,0]],[[2,2],[4,2],[4,4],[2,4],[2,2]]]}`,
	`{"type":"MultiPoint","coordinates":[[1,2],[null,null]]}`, `{"type":"MultiLineString","coordinates":[[[0,0],[1,1]],[[2,2],[3,3]]]}`,
	`{"type":"MultiPolygon","coordinates":[[[[0,0],[1,0],[1,1],[0,0]]],[[[5,5],[6,5],[6,6],[5,5]]]]}`,
	`{"type":"GeometryCollection","geometries":[{"type":"Point","coordinates":[1,2]},{"type":"GeometryCollection","geometries":[]}]}`,
	`{"type":"FeatureCollection","features":[{"type":"Feature","geometry":{"type":"Point","coordinates":[1,2]},"properties":{"a":"b\"c"}}]}`,
	`{"type":"Feature","geometry":{"type":"Point","coordinates":[0,0]},"properties":{"type":"Circle","radius":100,"radius_units":"km"}}`,
	` { "type" : "Point" , "coordinates" : [ -0.0e-0 , 1E+2 ] } `, `{"type":"Point","coordinates":[1e999,5e-324]}`,
	`{"type":"Point","type":"LineString","coordinates":[[0,0],[1,1]],"coordinates":[5,5]}`, `{"type":"Feature","geometry":null}`,
	"\ufeff{}", `{"type":"Polygon","coordinates":[[{"a":0,"b":0},[1,0],[1,1],[0,0]]]}`, `{"type":"Point","coordinates":[1,2],"x":[[[[[[[[[[]]]]]]]]]]}`,
	`{"type":"Point","coordinates":[1,2],"a":"\ud800","k\" y" : 1}`,
}

func fuzzOpts(bits byte) *geojson.ParseOptions {
	o := &geojson.ParseOptions{IndexChildren: 64, IndexGeometry: 64, IndexGeometryKind: geometry.QuadTree}
	if bits&1 != 0 {
		o.IndexChildren, o.IndexGeometry = 1, 1
	}
	if bits&2 != 0 {
		o.IndexGeometryKind = geometry.RTree
	}
	o.RequireValid = bits&4 != 0
	o.AllowSimplePoints = bits&8 != 0
	o.DisableCircleType = bits&16 != 0
	o.AllowRects = bits&32 != 0
	return o
}

// FuzzParse: C05 on arbitrary bytes - no panic, exactly one of (object, error), and the
// non-geometric methods of an accepted object return.
func FuzzParse(f *testing.F) {
	for i, s := range fuzzSeeds {
		f.Add(s, byte(i))
	}
	for _, s := range hostile {
		f.Add(s, byte(0))
	}
	f.Fuzz(func(t *testing.T, data string, bits byte) {
		o := c05ParseCheck(c05Text{Text: data, Opts: optsModel{IndexChildren: int(bits & 1), IndexGeometry: int(bits & 1), IndexGeometryKind: int(bits>>1) & 1,
			RequireValid: bits&4 != 0, AllowSimplePoints: bits&8 != 0, DisableCircleType: bits&16 != 0, AllowRects: bits&32 != 0}})
		if o.Fail != "" {
			t.Fatal(o.Fail)
		}
	})
}

// FuzzParseDiff: C07 with the reference acceptor as oracle.
func FuzzParseDiff(f *testing.F) {
	for _, s := range fuzzSeeds {
		f.Add(s)
	}
	f.Fuzz(func(t *testing.T, data string) {
		if v, _, _ := refjson.Classify(data); v == refjson.Unspecified {
			return
		}
		o := c07Check(docCase{Text: data})
		if o.Fail != "" && o.Known == "" {
			t.Fatal(o.Fail)
		}
	})
}

// FuzzRoundTrip: C06 on whatever texts the coverage-guided search makes Parse accept.
func FuzzRoundTrip(f *testing.F) {
	for i, s := range fuzzSeeds {
		f.Add(s, byte(i*7))
	}
	f.Fuzz(func(t *testing.T, data string, bits byte) {
		o := c06Check(c06Case{Text: data, Opts: optsModel{IndexChildren: int(bits & 1), IndexGeometry: int(bits & 1), IndexGeometryKind: int(bits>>1) & 1,
			RequireValid: bits&4 != 0, AllowSimplePoints: bits&8 != 0, DisableCircleType: bits&16 != 0, AllowRects: bits&32 != 0}})
		if o.Fail != "" && o.Known == "" {
			t.Fatal(o.Fail)
		}
	})
}

// FuzzPairs: C02 and C03 with the exact planar oracle, the rapid generators driven by the fuzzer's bytes
// (rapid.MakeFuzz), so that coverage feedback from the library steers the shapes.
func FuzzPairs(f *testing.F) {
	// starting corpus: fixed pseudo-random byte strings long enough for whole shape pairs (an empty corpus only
	// reaches the first few draws of the generators)
	x := uint64(0x9E3779B97F4A7C15)
	for i := 0; i < 24; i++ {
		b := make([]byte, 1024+256*i)
		for j := range b {
			x = x*6364136223846793005 + 1442695040888963407
			b[j] = byte(x >> 56)
		}
		f.Add(b)
	}
	f.Fuzz(rapid.MakeFuzz(func(t *rapid.T) {
		var c pairCase
		if rapid.Bool().Draw(t, "contains") {
			c = c03Gen(t)
			if o := c03Check(c); o.Fail != "" && o.Known == "" && o.Infra == "" {
				t.Fatalf("C03: %s", o.Fail)
			}
			return
		}
		c = c02Gen(t)
		if o := c02Check(c); o.Fail != "" && o.Known == "" && o.Infra == "" {
			t.Fatalf("C02: %s", o.Fail)
		}
	}))
}

var _ = fw.OK
