// Package refjson is the reference reader / acceptor for C06, C07, C08
// (DESIGN.md §3.3).  It decodes the *text* with encoding/json (through jdoc)
// and applies the accept / reject rules exactly as property C07 words them.
// The verdict is three-valued: texts the statement lists on neither side are
// Unspecified and nothing is asserted about them beyond totality.
package refjson

import (
	"math"
	"strconv"

	"verifharness/jdoc"
)

type Verdict int

const (
	Accept Verdict = iota
	Reject
	Unspecified
)

func (v Verdict) String() string { return [...]string{"accept", "reject", "unspecified"}[v] }

// Pos is one decoded position.
type Pos struct {
	X, Y  float64
	N     int       // number of elements in the position array
	Extra []float64 // elements 3..4 (NaN for null)
}

// Ref is the reference tree of an accepted document.
type Ref struct {
	Type     string
	Pt       Pos     // Point
	Line     []Pos   // LineString
	Rings    [][]Pos // Polygon
	Children []*Ref  // Multi*, collections, Feature (one child)
	Circle   bool    // Feature carrying the Circle convention
	Radius   float64 // metres
	Obj      *jdoc.Value
	// Units are the coordinate arrays the library parses as one unit (dimensionality
	// is fixed by the first position of each): lists of element counts per position.
	Units [][]int
}

var reserved = map[string]bool{"type": true, "coordinates": true, "geometry": true, "geometries": true, "features": true}

var required = map[string]string{
	"Point": "coordinates", "LineString": "coordinates", "Polygon": "coordinates",
	"MultiPoint": "coordinates", "MultiLineString": "coordinates", "MultiPolygon": "coordinates",
	"GeometryCollection": "geometries", "FeatureCollection": "features", "Feature": "geometry",
}

type state struct {
	unspec string // first reason that makes the text unspecified
}

func (s *state) mark(why string) {
	if s.unspec == "" {
		s.unspec = why
	}
}

// Classify returns the verdict, the reference tree for accepted texts and the reason.
func Classify(text string) (Verdict, *Ref, string) {
	v, err := jdoc.Parse(text)
	if err != nil {
		return Reject, nil, "not valid JSON"
	}
	st := &state{}
	ref, why := st.object(v)
	if ref == nil {
		return Reject, nil, why
	}
	if st.unspec != "" {
		return Unspecified, ref, st.unspec
	}
	return Accept, ref, ""
}

func (st *state) object(v *jdoc.Value) (*Ref, string) {
	if v.Kind != jdoc.Object {
		return nil, "not an object"
	}
	t := v.Get("type")
	if t == nil {
		return nil, "missing type"
	}
	if t.Kind != jdoc.String {
		return nil, "non-string type"
	}
	req, ok := required[t.Str]
	if !ok {
		return nil, "unknown type"
	}
	for _, m := range v.Obj {
		if reserved[m.Key] && m.Key != "type" && m.Key != req {
			st.mark("foreign member reuses the reserved key " + m.Key)
		}
	}
	ref := &Ref{Type: t.Str, Obj: v}
	r := v.Get(req)
	if r == nil {
		return nil, "missing " + req
	}
	switch t.Str {
	case "Feature":
		child, why := st.object(r)
		if child == nil {
			return nil, "geometry: " + why
		}
		ref.Children = []*Ref{child}
		st.circle(v, ref, child)
		return ref, ""
	case "GeometryCollection", "FeatureCollection":
		if r.Kind != jdoc.Array {
			return nil, req + " is not an array"
		}
		for _, e := range r.Arr {
			child, why := st.object(e)
			if child == nil {
				return nil, req + " element: " + why
			}
			ref.Children = append(ref.Children, child)
		}
		return ref, ""
	}
	if r.Kind != jdoc.Array {
		return nil, "coordinates is not an array"
	}
	switch t.Str {
	case "Point":
		p, why := st.position(r, true)
		if why != "" {
			return nil, why
		}
		ref.Pt = p
		ref.Units = [][]int{{p.N}}
	case "LineString":
		l, why := st.line(r)
		if why != "" {
			return nil, why
		}
		ref.Line = l
		ref.Units = [][]int{counts(l)}
	case "Polygon":
		rings, why := st.polygon(r)
		if why != "" {
			return nil, why
		}
		ref.Rings = rings
		ref.Units = [][]int{countsRings(rings)}
	case "MultiPoint":
		for _, e := range r.Arr {
			p, why := st.position(e, true)
			if why != "" {
				return nil, why
			}
			ref.Children = append(ref.Children, &Ref{Type: "Point", Pt: p})
			ref.Units = append(ref.Units, []int{p.N})
		}
	case "MultiLineString":
		for _, e := range r.Arr {
			l, why := st.line(e)
			if why != "" {
				return nil, why
			}
			ref.Children = append(ref.Children, &Ref{Type: "LineString", Line: l})
			ref.Units = append(ref.Units, counts(l))
		}
	case "MultiPolygon":
		for _, e := range r.Arr {
			rings, why := st.polygon(e)
			if why != "" {
				return nil, why
			}
			ref.Children = append(ref.Children, &Ref{Type: "Polygon", Rings: rings})
			ref.Units = append(ref.Units, countsRings(rings))
		}
	}
	return ref, ""
}

func counts(l []Pos) []int {
	out := make([]int, len(l))
	for i, p := range l {
		out[i] = p.N
	}
	return out
}

func countsRings(rings [][]Pos) []int {
	var out []int
	for _, r := range rings {
		out = append(out, counts(r)...)
	}
	return out
}

func (st *state) position(v *jdoc.Value, allowNull bool) (Pos, string) {
	var p Pos
	if v.Kind != jdoc.Array {
		return p, "a position is not an array"
	}
	p.N = len(v.Arr)
	if p.N < 2 {
		return p, "a position with fewer than two ordinates"
	}
	var vals [4]float64
	for i := 0; i < p.N && i < 4; i++ {
		e := v.Arr[i]
		switch e.Kind {
		case jdoc.Number:
			f, err := strconv.ParseFloat(e.Num, 64)
			if err != nil || math.IsInf(f, 0) {
				st.mark("a number that overflows a double")
			}
			vals[i] = f
		case jdoc.Null:
			if !allowNull {
				return p, "null ordinate outside Point/MultiPoint"
			}
			vals[i] = math.NaN()
		default:
			return p, "a non-numeric value among the first four ordinates"
		}
	}
	if p.N > 4 {
		st.mark("a position with more than four elements")
	}
	p.X, p.Y = vals[0], vals[1]
	for i := 2; i < p.N && i < 4; i++ {
		p.Extra = append(p.Extra, vals[i])
	}
	return p, ""
}

func (st *state) line(v *jdoc.Value) ([]Pos, string) {
	if v.Kind != jdoc.Array {
		return nil, "a line is not an array"
	}
	var out []Pos
	for _, e := range v.Arr {
		p, why := st.position(e, false)
		if why != "" {
			return nil, why
		}
		out = append(out, p)
	}
	if len(out) < 2 {
		return nil, "a line with fewer than two positions"
	}
	return out, ""
}

func sameXY(a, b Pos) bool {
	return a.X == b.X && a.Y == b.Y
}

func (st *state) polygon(v *jdoc.Value) ([][]Pos, string) {
	if v.Kind != jdoc.Array {
		return nil, "a polygon is not an array"
	}
	if len(v.Arr) == 0 {
		return nil, "a polygon with no ring"
	}
	var rings [][]Pos
	for _, rv := range v.Arr {
		if rv.Kind != jdoc.Array {
			return nil, "a ring is not an array"
		}
		var ring []Pos
		for _, e := range rv.Arr {
			p, why := st.position(e, false)
			if why != "" {
				return nil, why
			}
			ring = append(ring, p)
		}
		if len(ring) < 4 {
			return nil, "a ring with fewer than four positions"
		}
		f, l := ring[0], ring[len(ring)-1]
		if !sameXY(f, l) {
			return nil, "a ring that is not closed"
		}
		if len(f.Extra) != len(l.Extra) {
			st.mark("ring closed in x,y but first and last differ in dimensionality")
		} else {
			for i := range f.Extra {
				if f.Extra[i] != l.Extra[i] {
					st.mark("ring closed in x,y but first and last differ in z/m")
				}
			}
		}
		rings = append(rings, ring)
	}
	return rings, ""
}

// circle recognises the Tile38 Circle convention on a Feature with Point geometry.
func (st *state) circle(v *jdoc.Value, ref, child *Ref) {
	if child.Type != "Point" {
		return
	}
	props := v.Get("properties")
	if props == nil {
		return
	}
	if v.Count("properties") > 1 {
		// duplicated properties: which one carries the convention is not specified
		for _, m := range v.Obj {
			if m.Key == "properties" && m.Val.Kind == jdoc.Object {
				if t := m.Val.Get("type"); t != nil && t.Kind == jdoc.String && t.Str == "Circle" {
					st.mark("Circle convention with duplicated properties")
					return
				}
			}
		}
	}
	if props.Kind != jdoc.Object {
		return
	}
	t := props.Get("type")
	if t == nil {
		return
	}
	if v.Count("properties") > 1 || props.Count("type") > 1 || props.Count("radius") > 1 || props.Count("radius_units") > 1 {
		st.mark("Circle convention with duplicated members")
		return
	}
	if t.Kind != jdoc.String {
		if t.Kind == jdoc.Array || t.Kind == jdoc.Object {
			return
		}
		st.mark("Circle convention with a non-string type")
		return
	}
	if t.Str != "Circle" {
		return
	}
	ref.Circle = true
	rad := props.Get("radius")
	if rad == nil || rad.Kind != jdoc.Number {
		st.mark("Circle convention with a missing or non-numeric radius")
		return
	}
	f, err := strconv.ParseFloat(rad.Num, 64)
	if err != nil {
		st.mark("Circle radius overflows")
	}
	ref.Radius = f
	if u := props.Get("radius_units"); u != nil {
		if u.Kind != jdoc.String {
			st.mark("Circle convention with non-string radius_units")
			return
		}
		switch u.Str {
		case "", "m":
		case "km":
			ref.Radius = f * 1000
		default:
			st.mark("Circle convention with unknown radius_units")
		}
	}
	if len(child.Pt.Extra) > 0 || child.Pt.N > 2 {
		// z of the centre is dropped by the Circle object; the convention belongs to C13
	}
}

// MixedDims reports whether some coordinate unit starts with a two-element
// position and later has one with three or more (finding F9's defect model).
func (r *Ref) MixedDims() bool {
	for _, u := range r.Units {
		if len(u) > 0 && u[0] == 2 {
			for _, n := range u[1:] {
				if n >= 3 {
					return true
				}
			}
		}
	}
	for _, c := range r.Children {
		if c.MixedDims() {
			return true
		}
	}
	return false
}

// Foreign returns the foreign members (everything but the object's type and
// required member) in document order, duplicates kept.
func (r *Ref) Foreign() []jdoc.Member {
	var out []jdoc.Member
	req := required[r.Type]
	for _, m := range r.Obj.Obj {
		if m.Key == "type" || m.Key == req {
			continue
		}
		out = append(out, m)
	}
	return out
}

// ClearCircle drops the Circle recognition (documents parsed with DisableCircleType).
func (r *Ref) ClearCircle() {
	r.Circle = false
	for _, c := range r.Children {
		c.ClearCircle()
	}
}
