package harness

// C05 — every operation terminates normally on every input (DESIGN.md §4 C05).

import (
	"fmt"
	"math"
	"os"
	"strconv"
	"strings"
	"testing"

	"github.com/tidwall/geojson"
	"github.com/tidwall/geojson/geometry"
	"pgregory.net/rapid"
	"verifharness/fw"
	"verifharness/gj"
)

var c05Rec *fw.Rec

// ---------- (a) Parse on any byte string ----------

type c05Text struct {
	Text string    `json:"text"`
	Opts optsModel `json:"opts"`
}

func c05ParseCheck(c c05Text) fw.Outcome {
	obj, err := geojson.Parse(c.Text, c.Opts.lib())
	if (obj == nil) == (err == nil) {
		return fw.Failf("parse", "Parse returned (%v, %v): exactly one of object / error expected; text %q", obj, err, c.Text)
	}
	if err != nil {
		return fw.OK("parse/rejected", gjsonLooksValid(c.Text))
	}
	// non-geometric methods are total on every parsed object, also with non-finite ordinates
	_ = obj.JSON()
	_ = obj.String()
	_, _ = obj.MarshalJSON()
	_ = obj.NumPoints()
	_ = obj.Members()
	_ = obj.Rect()
	_ = obj.Center()
	_ = obj.Empty()
	obj.ForEach(func(g geojson.Object) bool { return true })
	c05KindSpecific(obj)
	if cl, ok := obj.(geojson.Collection); ok {
		_ = cl.Children()
		_ = cl.Indexed()
	}
	return fw.OK("parse/accepted", true)
}

// c05KindSpecific calls the accessors that only some kinds have (Z, IsPoint, Base, Meters, Polygon ...): total as well.
func c05KindSpecific(obj geojson.Object) {
	_, _ = geojson.IsPoint(obj)
	switch x := obj.(type) {
	case *geojson.Point:
		_, _, _ = x.Z(), x.Base(), x.IsSimple()
	case *geojson.SimplePoint:
		_ = x.Base()
	case *geojson.LineString:
		_ = x.Base()
	case *geojson.Polygon:
		_ = x.Base()
	case *geojson.Rect:
		_ = x.Base()
	case *geojson.Feature:
		if b := x.Base(); b != nil {
			c05KindSpecific(b)
		}
	case *geojson.Circle:
		_, _, _ = x.Meters(), x.Haversine(), x.HaversineTo(geometry.Point{X: 1, Y: 2})
		if p := x.Polygon(); p != nil {
			_ = p.NumPoints()
		}
	case geojson.Collection:
		for _, ch := range x.Children() {
			c05KindSpecific(ch)
		}
	}
}

func gjsonLooksValid(s string) bool {
	s = strings.TrimSpace(s)
	return strings.HasPrefix(s, "{") && strings.HasSuffix(s, "}")
}

var hostile = []string{
	"", " ", "\x00", "\x01", "{", "}", "{}", "[]", "null", `{"type"}`, `{"type":}`, `{"type":"Point"`, `{"type":"Point","coordinates":[1e999,-1e999]}`,
	`{"type":"Point","coordinates":[-0,-0.0]}`, "\ufeff{}", `{"type":"Point","coordinates":[1,2]}` + "\x00", `{"\u0000":1,"type":"Point","coordinates":[1,2]}`,
	`{"type":"Point","coordinates":[1,2],"a":"\ud800"}`, `{"type":"Point","coordinates":[1,2],"a":"\udc00\ud800"}`, "{\"type\":\"Point\",\"coordinates\":[1,2],\"a\":\"\xff\xfe\"}",
	`{"type":"Feature","geometry":null}`, `{"type":"Feature","geometry":{"type":"Feature","geometry":{"type":"Point","coordinates":[0,0]}}}`,
	`{"type":"GeometryCollection","geometries":[null]}`, `{"type":"FeatureCollection","features":{}}`, `{"type":"Polygon","coordinates":[[]]}`,
	`{"type":"Polygon","coordinates":[[[0,0],[0,0],[0,0],[0,0]]]}`, `{"type":"MultiPolygon","coordinates":[[[[0,0],[1,1],[0,1],[0,0]]],[]]}`,
	`{"type":"LineString","coordinates":[[0,0],[0,0]]}`, `{"type":"Point","coordinates":[null,null,null,null,null]}`, `{"type":"Point","coordinates":{"a":1,"b":2}}`,
	`{"type":"Feature","geometry":{"type":"Point","coordinates":[0,0]},"properties":{"type":"Circle","radius":"x","radius_units":"km"}}`,
	`{"type":"Feature","geometry":{"type":"Point","coordinates":[0,0]},"properties":{"type":"Circle","radius":1e999}}`,
	`{"type":"Feature","geometry":{"type":"Point","coordinates":[0,0]},"properties":{"type":"Circle","radius":-5}}`,
	`{"type":"Feature","geometry":{"type":"Point","coordinates":[0,95]},"properties":{"type":"Circle","radius":5000000}}`,
	"{\"type\":\"Point\"\t,\r\n\"coordinates\":[1,2]}", `{"type":"Point","coordinates":[1,2]} x`, `{"type":"Point","coordinates":[1,2]}}`, "\v{}", "{\"a\":\"\x01\"}",
	`{"type":"Point","type":"LineString","coordinates":[[0,0],[1,1]],"coordinates":[5,5]}`, `0`, `"x"`, `[{"type":"Point","coordinates":[1,2]}]`, `{"type":"Point","coordinates":[1,2`,
}

func c05GenText(t *rapid.T) c05Text {
	var s string
	switch rapid.IntRange(0, 9).Draw(t, "textkind") {
	case 0:
		s = rapid.SampledFrom(hostile).Draw(t, "hostile")
	case 1: // arbitrary bytes
		s = string(rapid.SliceOfN(rapid.Byte(), 0, 60).Draw(t, "bytes"))
	case 2: // a document with a random byte edit
		s = gj.Doc(t, gj.Opts{MaxDepth: 2, Noise: true, AllowOverflow: true})
		if len(s) > 0 {
			i := rapid.IntRange(0, len(s)-1).Draw(t, "pos")
			b := []byte(s)
			switch rapid.IntRange(0, 2).Draw(t, "edit") {
			case 0:
				b[i] = rapid.Byte().Draw(t, "b")
			case 1:
				b = append(b[:i], b[i+1:]...)
			default:
				b = append(b[:i], append([]byte{rapid.Byte().Draw(t, "b")}, b[i:]...)...)
			}
			s = string(b)
		}
	default:
		s = gj.Doc(t, gj.Opts{MaxDepth: 3, Noise: rapid.Bool().Draw(t, "noise"), AllowOverflow: true, Mutations: rapid.IntRange(0, 2).Draw(t, "nmut"), Lattice: rapid.Bool().Draw(t, "lat")})
	}
	return c05Text{Text: s, Opts: genOpts(t)}
}

// ---------- (b,c) every method on every ordered pair of objects ----------

type c05Pair struct {
	A      objSpec `json:"a"`
	B      objSpec `json:"b"`
	ParseA bool    `json:"parse_a"`
	Stop   int     `json:"stop"`
	Scale  float64 `json:"scale,omitempty"` // every ordinate is multiplied by this (projected coordinates, large magnitudes)
}

func (s *objSpec) scaled(k float64) objSpec {
	t := *s
	mul := func(ps []fpt) []fpt {
		if ps == nil {
			return nil
		}
		out := make([]fpt, len(ps))
		for i, p := range ps {
			out[i] = fpt{F(float64(p.X) * k), F(float64(p.Y) * k)}
		}
		return out
	}
	t.Pts = mul(s.Pts)
	t.Rings = nil
	for _, r := range s.Rings {
		t.Rings = append(t.Rings, mul(r))
	}
	t.Children = nil
	for i := range s.Children {
		t.Children = append(t.Children, s.Children[i].scaled(k))
	}
	return t
}

func baseGeoms(o geojson.Object) (pt *geometry.Point, rc *geometry.Rect, ln *geometry.Line, pl *geometry.Poly) {
	switch x := o.(type) {
	case *geojson.Point:
		p := x.Base()
		pt = &p
	case *geojson.SimplePoint:
		p := x.Base()
		pt = &p
	case *geojson.Rect:
		r := x.Base()
		rc = &r
	case *geojson.LineString:
		ln = x.Base()
	case *geojson.Polygon:
		pl = x.Base()
	}
	return
}

func callEverything(r *fw.Rec, a, b geojson.Object, stop int) {
	step := func(name string) {
		if r != nil {
			r.Slot("methods", name)
			r.Progress()
		}
	}
	step("object methods")
	_ = a.Empty()
	_ = a.Valid()
	rect := a.Rect()
	centre := a.Center()
	_ = a.JSON()
	_ = a.String()
	_, _ = a.MarshalJSON()
	_ = a.AppendJSON(make([]byte, 3, 8))
	_ = a.NumPoints()
	_ = a.Members()
	c05KindSpecific(a)
	n := 0
	a.ForEach(func(g geojson.Object) bool { n++; return stop == 0 || n < stop })
	step("Contains")
	_ = a.Contains(b)
	step("Within")
	_ = a.Within(b)
	step("Intersects")
	_ = a.Intersects(b)
	step("Distance")
	_ = a.Distance(b)
	step("spatial")
	sp := a.Spatial()
	br := b.Rect()
	_ = sp.WithinRect(br)
	_ = sp.IntersectsRect(br)
	_ = sp.DistanceRect(br)
	bc := b.Center()
	_ = sp.WithinPoint(bc)
	_ = sp.IntersectsPoint(bc)
	_ = sp.DistancePoint(bc)
	pt, rc, ln, pl := baseGeoms(b)
	if ln != nil {
		step("spatial line")
		_ = sp.WithinLine(ln)
		_ = sp.IntersectsLine(ln)
		_ = sp.DistanceLine(ln)
	}
	if pl != nil && pl.Exterior != nil {
		step("spatial poly")
		_ = sp.WithinPoly(pl)
		_ = sp.IntersectsPoly(pl)
		_ = sp.DistancePoly(pl)
	}
	if cl, ok := a.(geojson.Collection); ok {
		step("collection")
		_ = cl.Children()
		_ = cl.Indexed()
		k := 0
		cl.Search(br, func(child geojson.Object) bool { k++; return stop == 0 || k < stop })
		cl.Search(geometry.Rect{Min: geometry.Point{X: math.Inf(-1), Y: math.Inf(-1)}, Max: geometry.Point{X: math.Inf(1), Y: math.Inf(1)}}, func(child geojson.Object) bool { return true })
	}
	// geometry level
	apt, arc, aln, apl := baseGeoms(a)
	var ga geometry.Geometry
	switch {
	case apt != nil:
		ga = *apt
	case arc != nil:
		ga = *arc
	case aln != nil:
		ga = aln
	case apl != nil && apl.Exterior != nil:
		ga = apl
	}
	if ga != nil {
		step("geometry level")
		_ = ga.Rect()
		_ = ga.Empty()
		_ = ga.Valid()
		_ = ga.ContainsPoint(bc)
		_ = ga.IntersectsPoint(bc)
		_ = ga.ContainsRect(br)
		_ = ga.IntersectsRect(br)
		_ = ga.ContainsRect(rect)
		_ = ga.ContainsPoint(centre)
		if pt != nil {
			_ = ga.ContainsPoint(*pt)
		}
		if rc != nil {
			_ = ga.ContainsRect(*rc)
			_ = ga.IntersectsRect(*rc)
		}
		if ln != nil {
			_ = ga.ContainsLine(ln)
			_ = ga.IntersectsLine(ln)
			k := 0
			ln.Search(rect, func(seg geometry.Segment, idx int) bool { k++; return stop == 0 || k < stop })
			_ = ln.Move(1, 1)
		}
		if pl != nil && pl.Exterior != nil {
			_ = ga.ContainsPoly(pl)
			_ = ga.IntersectsPoly(pl)
			_ = pl.Move(1, 1)
			_ = pl.Clockwise()
		}
		var nilLine *geometry.Line
		var nilPoly *geometry.Poly
		_ = ga.ContainsLine(nilLine)
		_ = ga.IntersectsLine(nilLine)
		_ = ga.ContainsPoly(nilPoly)
		_ = ga.IntersectsPoly(nilPoly)
	}
}

func c05PairCheck(c c05Pair) fw.Outcome {
	sa, sb := c.A, c.B
	if c.Scale != 0 && c.Scale != 1 {
		sa, sb = c.A.scaled(c.Scale), c.B.scaled(c.Scale)
	}
	a, b := sa.build(), sb.build()
	if c.ParseA {
		if o, err := geojson.Parse(a.JSON(), &geojson.ParseOptions{IndexChildren: 1, IndexGeometry: 1, IndexGeometryKind: geometry.RTree, AllowSimplePoints: true, AllowRects: true}); err == nil {
			a = o
		}
	}
	callEverything(c05Rec, a, b, c.Stop)
	callEverything(c05Rec, b, a, c.Stop)
	ra, rb := a.Rect(), b.Rect()
	return fw.OK(c.A.Kind+"x"+c.B.Kind, ra.IntersectsRect(rb))
}

// genLatticeSpec: objects of all kinds on a small integer lattice (contacts are frequent),
// including empties, zero-length segments, repeated vertices, NewPolygon(nil), nested collections.
func genLatticeSpec(t *rapid.T, depth int, allowCircle bool) objSpec {
	kinds := []string{"Point", "PointZ", "SimplePoint", "LineString", "Polygon", "Rect", "MultiPoint", "MultiLineString", "MultiPolygon"}
	if allowCircle {
		kinds = append(kinds, "Circle")
	}
	if depth > 0 {
		kinds = append(kinds, "GeometryCollection", "FeatureCollection", "Feature")
	}
	lp := func(label string) fpt {
		return fpt{F(rapid.IntRange(0, 6).Draw(t, label+"x")), F(rapid.IntRange(0, 6).Draw(t, label+"y"))}
	}
	lps := func(lo, hi int, label string) []fpt {
		n := rapid.IntRange(lo, hi).Draw(t, label+"n")
		out := make([]fpt, n)
		for i := range out {
			out[i] = lp(label)
		}
		return out
	}
	ring := func(label string) []fpt {
		r := lps(0, 6, label)
		if len(r) > 0 && rapid.IntRange(0, 2).Draw(t, label+"close") > 0 {
			r = append(r, r[0])
		}
		return r
	}
	s := objSpec{Kind: rapid.SampledFrom(kinds).Draw(t, "okind")}
	switch s.Kind {
	case "Point", "SimplePoint", "PointZ":
		s.Pts = []fpt{lp("p")}
	case "LineString":
		s.Pts = lps(0, 6, "l")
		if rapid.IntRange(0, 19).Draw(t, "longline") == 0 {
			// long enough for the default geometry index, with one position repeated many times
			p := lp("rep")
			for i := rapid.IntRange(64, 90).Draw(t, "longn"); i > 0; i-- {
				if i%2 == 0 {
					s.Pts = append(s.Pts, p)
				} else {
					s.Pts = append(s.Pts, lp("ll"))
				}
			}
		}
	case "Polygon":
		if rapid.IntRange(0, 11).Draw(t, "nilpoly") == 0 {
			s.NilPoly = true
			break
		}
		s.Rings = [][]fpt{ring("ext")}
		for i := rapid.IntRange(0, 2).Draw(t, "nh"); i > 0; i-- {
			s.Rings = append(s.Rings, ring("hole"))
		}
	case "Rect":
		a, b := lp("ra"), lp("rb")
		s.Pts = []fpt{{F(math.Min(float64(a.X), float64(b.X))), F(math.Min(float64(a.Y), float64(b.Y)))}, {F(math.Max(float64(a.X), float64(b.X))), F(math.Max(float64(a.Y), float64(b.Y)))}}
	case "Circle":
		s.Pts = []fpt{lp("c")}
		s.Radius = F(rapid.SampledFrom([]float64{0, 1, 1000, 100000, 500000, 2e7, -1}).Draw(t, "radius"))
		s.Steps = rapid.SampledFrom([]int{-1000000, -1, 0, 1, 2, 3, 4, 64, 5000}).Draw(t, "steps") // any int is a legal argument of NewCircle
	case "MultiPoint":
		s.Pts = lps(0, 5, "mp")
	case "MultiLineString":
		for i := rapid.IntRange(0, 3).Draw(t, "nl"); i > 0; i-- {
			s.Rings = append(s.Rings, lps(0, 5, "ml"))
		}
	case "MultiPolygon":
		for i := rapid.IntRange(0, 3).Draw(t, "np"); i > 0; i-- {
			c := objSpec{Kind: "Polygon"}
			if rapid.IntRange(0, 11).Draw(t, "nilpoly") == 0 {
				c.NilPoly = true
			} else {
				c.Rings = [][]fpt{ring("ext")}
			}
			s.Children = append(s.Children, c)
		}
	case "GeometryCollection", "FeatureCollection":
		for i := rapid.IntRange(0, 4).Draw(t, "nc"); i > 0; i-- {
			s.Children = append(s.Children, genLatticeSpec(t, depth-1, allowCircle))
		}
	case "Feature":
		s.Children = []objSpec{genLatticeSpec(t, depth-1, allowCircle)}
		s.Members = rapid.SampledFrom([]string{"", `{"id":1}`, `{"properties":{"a":1}}`}).Draw(t, "members")
	}
	return s
}

func c05GenPair(t *rapid.T) c05Pair {
	return c05Pair{A: genLatticeSpec(t, 3, true), B: genLatticeSpec(t, 3, true), ParseA: rapid.Bool().Draw(t, "parsea"), Stop: rapid.IntRange(0, 3).Draw(t, "stop"),
		Scale: rapid.SampledFrom([]float64{1, 1, 1, 0.001, 1000, 65536, 1e6, 3e9, 1e-7}).Draw(t, "scale")}
}

// ---------- size-doubling series ----------

type c05Scale struct {
	Shape string `json:"shape"`
	N     int    `json:"n"`
}

func bigRing(n int, phase float64) []geometry.Point {
	pts := make([]geometry.Point, 0, n+1)
	for i := 0; i < n; i++ {
		a := 2 * math.Pi * float64(i) / float64(n)
		r := 50.0
		if i%2 == 1 {
			r = 30 // star: every second vertex is reflex
		}
		pts = append(pts, geometry.Point{X: r*math.Cos(a+phase) + 60, Y: r*math.Sin(a+phase) + 60})
	}
	return append(pts, pts[0])
}

func c05ScaleCheck(c c05Scale) fw.Outcome {
	r := c05Rec
	step := func(name string) {
		if r != nil {
			r.Slot("scaling", fmt.Sprintf("%s n=%d: %s", c.Shape, c.N, name))
			r.Progress()
		}
	}
	switch c.Shape {
	case "star-ring-pairs":
		for _, opts := range []*geometry.IndexOptions{{Kind: geometry.None}, {Kind: geometry.QuadTree, MinPoints: 64}, {Kind: geometry.RTree, MinPoints: 64}} {
			a := geojson.NewPolygon(geometry.NewPoly(bigRing(c.N, 0), nil, opts))
			b := geojson.NewPolygon(geometry.NewPoly(bigRing(c.N, 0.001), nil, opts))
			l := geojson.NewLineString(geometry.NewLine(bigRing(c.N, 0.002), opts))
			for _, pair := range [][2]geojson.Object{{a, b}, {a, l}, {l, a}, {l, l}, {a, a}} {
				step("Contains")
				_ = pair[0].Contains(pair[1])
				step("Intersects")
				_ = pair[0].Intersects(pair[1])
				step("Within")
				_ = pair[0].Within(pair[1])
			}
			step("JSON/Parse")
			if _, err := geojson.Parse(a.JSON(), nil); err != nil {
				return fw.Failf("scaling", "Parse rejects a %d-point polygon: %v", c.N, err)
			}
		}
	case "repeated-vertex": // many identical and duplicated positions: segments that no index can separate
		pts := make([]geometry.Point, 0, c.N)
		for i := 0; i < c.N; i++ {
			switch {
			case i%3 != 0:
				pts = append(pts, geometry.Point{X: 7, Y: 7})
			default:
				pts = append(pts, geometry.Point{X: float64(i % 13), Y: float64(i % 11)})
			}
		}
		for _, opts := range []*geometry.IndexOptions{nil, {Kind: geometry.QuadTree, MinPoints: 1}, {Kind: geometry.RTree, MinPoints: 1}} {
			step("build")
			l := geojson.NewLineString(geometry.NewLine(pts, opts))
			p := geojson.NewPolygon(geometry.NewPoly(append(append([]geometry.Point{}, pts...), pts[0]), nil, opts))
			step("predicates")
			_ = l.Intersects(p)
			_ = p.Contains(l)
			_ = l.Contains(l)
			_ = p.Intersects(geojson.NewPoint(geometry.Point{X: 7, Y: 7}))
			step("JSON/Parse")
			if _, err := geojson.Parse(l.JSON(), nil); err != nil {
				return fw.Failf("scaling", "Parse rejects a %d-point line with repeated positions: %v", c.N, err)
			}
		}
	case "collinear-line-pairs": // many collinear pieces: the ContainsLine walk
		pts := make([]geometry.Point, c.N)
		for i := range pts {
			pts[i] = geometry.Point{X: float64(i), Y: 0}
		}
		back := make([]geometry.Point, c.N)
		for i := range back {
			back[i] = geometry.Point{X: float64((i * 7919) % c.N), Y: 0}
		}
		a, b := geometry.NewLine(pts, nil), geometry.NewLine(back, nil)
		step("ContainsLine")
		_ = a.ContainsLine(b)
		step("ContainsLine reversed")
		_ = b.ContainsLine(a)
		step("IntersectsLine")
		_ = a.IntersectsLine(b)
	case "nested-features":
		s := strings.Repeat(`{"type":"Feature","geometry":`, c.N) + `{"type":"Point","coordinates":[1,2]}` + strings.Repeat(`}`, c.N)
		step("Parse")
		o, err := geojson.Parse(s, nil)
		if err != nil {
			return fw.Failf("scaling", "Parse rejects %d nested features: %v", c.N, err)
		}
		step("JSON")
		_ = o.JSON()
		step("Contains self")
		_ = o.Contains(o)
	case "nested-circle-features":
		// every level carries the Circle members; only the innermost has a Point to be a circle around
		s := strings.Repeat(`{"type":"Feature","properties":{"type":"Circle","radius":5,"radius_units":"km"},"geometry":`, c.N) +
			`{"type":"Point","coordinates":[1,2]}` + strings.Repeat(`}`, c.N)
		for _, opts := range []*geojson.ParseOptions{nil, {AllowSimplePoints: true}, {DisableCircleType: true}} {
			step("Parse")
			o, err := geojson.Parse(s, opts)
			if err != nil {
				return fw.Failf("scaling", "Parse rejects %d nested features with Circle members: %v", c.N, err)
			}
			step("JSON")
			_ = o.JSON()
			step("Intersects self")
			_ = o.Intersects(o)
		}
	case "huge-span":
		// finite coordinates whose differences overflow: the walks along a line must still end
		h := float64(c.N) * 1e306
		shapes := [][]geometry.Point{
			{{X: -h, Y: 0}, {X: h, Y: 0}},
			{{X: -h, Y: -h}, {X: h, Y: h}},
			{{X: -h, Y: 0}, {X: 0, Y: 0}, {X: h, Y: 0}},
			{{X: 0, Y: -h}, {X: 0, Y: h}, {X: 1, Y: 0}},
			{{X: -h, Y: -h}, {X: h, Y: -h}, {X: h, Y: h}, {X: -h, Y: h}, {X: -h, Y: -h}},
			{{X: -h, Y: -h}, {X: h, Y: -h}, {X: 0, Y: 0}, {X: h, Y: h}, {X: -h, Y: h}, {X: -h, Y: -h}},
		}
		var objs []geojson.Object
		for _, pts := range shapes {
			objs = append(objs, geojson.NewLineString(geometry.NewLine(pts, nil)))
			if len(pts) >= 4 {
				objs = append(objs, geojson.NewPolygon(geometry.NewPoly(pts, nil, nil)))
			}
		}
		// the same magnitudes under a segment index: node areas and enlargements overflow
		var zig []geometry.Point
		for i := 0; i < 24; i++ {
			y := h
			if i%2 == 1 {
				y = -h
			}
			zig = append(zig, geometry.Point{X: h * (float64(i)/11.5 - 1), Y: y}) // -h ... h without an overflowing intermediate
		}
		for _, kind := range []geometry.IndexKind{geometry.RTree, geometry.QuadTree} {
			step("indexed build")
			objs = append(objs, geojson.NewLineString(geometry.NewLine(zig, &geometry.IndexOptions{Kind: kind, MinPoints: 1})))
			ring := append(append([]geometry.Point{}, zig...), geometry.Point{X: h, Y: 0}, zig[0])
			objs = append(objs, geojson.NewPolygon(geometry.NewPoly(ring, nil, &geometry.IndexOptions{Kind: kind, MinPoints: 1})))
		}
		objs = append(objs, geojson.NewPoint(geometry.Point{X: h, Y: -h}), geojson.NewRect(geometry.Rect{Min: geometry.Point{X: -h, Y: -h}, Max: geometry.Point{X: h, Y: h}}))
		for i, a := range objs {
			for j, b := range objs {
				step(fmt.Sprintf("objects %d, %d", i, j))
				_ = a.Contains(b)
				_ = a.Intersects(b)
				_ = a.Within(b)
				_ = a.Distance(b)
			}
			step("JSON/Parse")
			if _, err := geojson.Parse(a.JSON(), nil); err != nil {
				return fw.Failf("scaling", "Parse rejects the serialisation of an object spanning +-%g: %v", h, err)
			}
			_, _, _ = a.Rect(), a.Center(), a.NumPoints()
		}
	case "nested-collections":
		s := strings.Repeat(`{"type":"GeometryCollection","geometries":[`, c.N) + `{"type":"Point","coordinates":[1,2]}` + strings.Repeat(`]}`, c.N)
		step("Parse")
		o, err := geojson.Parse(s, nil)
		if err != nil {
			return fw.Failf("scaling", "Parse rejects %d nested collections: %v", c.N, err)
		}
		step("methods")
		_ = o.JSON()
		_ = o.NumPoints()
		_ = o.Intersects(o)
		_ = o.Contains(o)
	case "many-children":
		var sb strings.Builder
		sb.WriteString(`{"type":"FeatureCollection","features":[`)
		for i := 0; i < c.N; i++ {
			if i > 0 {
				sb.WriteByte(',')
			}
			fmt.Fprintf(&sb, `{"type":"Feature","geometry":{"type":"Point","coordinates":[%d,%d]},"properties":{}}`, i%360-180, i%180-90)
		}
		sb.WriteString(`]}`)
		step("Parse")
		o, err := geojson.Parse(sb.String(), nil)
		if err != nil {
			return fw.Failf("scaling", "Parse rejects a collection of %d features: %v", c.N, err)
		}
		step("methods")
		_ = o.Intersects(o)
		_ = o.Contains(o)
		_ = o.Within(o)
		_ = o.JSON()
	}
	return fw.OK("scaling/"+c.Shape, true)
}

func c05ScaleEnum(tier string, yield func(c05Scale) bool) {
	kmax := 2
	if tier == "thorough" {
		kmax = 4
	}
	for _, n := range []int{40, 70, 130, 300} {
		if !yield(c05Scale{Shape: "repeated-vertex", N: n}) {
			return
		}
	}
	for _, shape := range []string{"star-ring-pairs", "collinear-line-pairs"} {
		for k := 0; k <= kmax; k++ {
			if !yield(c05Scale{Shape: shape, N: 500 << k}) {
				return
			}
		}
	}
	depths := []int{250, 500, 1000}
	if tier == "thorough" {
		depths = []int{500, 1000, 2000, 4000}
	}
	for _, shape := range []string{"nested-features", "nested-collections"} {
		for _, d := range depths {
			if !yield(c05Scale{Shape: shape, N: d}) {
				return
			}
		}
	}
	for _, d := range []int{25, 40, 80, 400} {
		if !yield(c05Scale{Shape: "nested-circle-features", N: d}) {
			return
		}
	}
	for _, n := range []int{1, 100, 170} { // +-1e306, +-1e308, +-1.7e308
		if !yield(c05Scale{Shape: "huge-span", N: n}) {
			return
		}
	}
	for k := 0; k <= kmax; k++ {
		if !yield(c05Scale{Shape: "many-children", N: 2000 << k}) {
			return
		}
	}
}

func c05Subs() []fw.Sub {
	n := func(q, th int) func(string) int {
		return func(tier string) int {
			if tier == "thorough" {
				return th
			}
			return q
		}
	}
	return []fw.Sub{
		fw.Prop[c05Text]{Name: "parse", Checks: n(20000, 400000), Gen: c05GenText, Check: c05ParseCheck},
		fw.Prop[c05Pair]{Name: "methods", Checks: n(15000, 300000), Gen: c05GenPair, Check: c05PairCheck},
		fw.Prop[c05Scale]{Name: "scaling", Enum: c05ScaleEnum, Check: c05ScaleCheck},
	}
}

func TestC05(t *testing.T) {
	fw.Main(t, "C05", c05Subs(), func(r *fw.Rec) {
		r.HangIsViolation = true
		r.PersistSlot = true
		c05Rec = r
	})
}

// TestC05Deep parses one deeply nested text; the driver runs it in its own
// process per (kind, depth) so that a fatal stack overflow is contained.
func TestC05Deep(t *testing.T) {
	kind, ds := os.Getenv("VERIF_DEEP_KIND"), os.Getenv("VERIF_DEEP_DEPTH")
	if kind == "" {
		t.Skip("driver helper")
	}
	d, _ := strconv.Atoi(ds)
	var s string
	switch kind {
	case "array":
		s = `{"type":"Point","coordinates":` + strings.Repeat("[", d) + strings.Repeat("]", d) + `}`
	case "member-array":
		s = `{"type":"Point","coordinates":[1,2],"x":` + strings.Repeat("[", d) + strings.Repeat("]", d) + `}`
	case "member-object":
		s = `{"type":"Point","coordinates":[1,2],"x":` + strings.Repeat(`{"a":`, d) + "1" + strings.Repeat("}", d) + `}`
	case "whitespace":
		// 32 bytes of white space per unit of depth in front of (and a little behind) the document: linear work, no stack
		s = strings.Repeat(" \n\t\r", 8*d) + `{"type":"Point","coordinates":[1,2]}` + strings.Repeat(" ", d)
	}
	obj, err := geojson.Parse(s, nil)
	if (obj == nil) == (err == nil) {
		fmt.Println("DEEP-BAD-RESULT")
		os.Exit(1)
	}
	if obj != nil {
		_ = obj.JSON()
	}
	fmt.Println("DEEP-OK")
}
