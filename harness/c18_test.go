package harness

// C18 — derived ring attributes (convex, clockwise, segment count) are exact (DESIGN.md §4 C18).

import (
	"fmt"
	"math"
	"testing"

	"github.com/tidwall/geojson/geometry"
	"pgregory.net/rapid"
	"verifharness/adapt"
	"verifharness/exact"
	"verifharness/fw"
)

type c18Case struct {
	Pts    []exact.P `json:"pts"`
	Closed bool      `json:"closed"` // closed ring (Poly exterior) or open series (Line)
	Enc    adapt.Enc `json:"enc"`
	// NegZero: bit i%64 set = zero ordinates of position i are written as -0
	NegZero uint64 `json:"negzero,omitempty"`
}

// convexOracle: no two non-zero turns of opposite sign along the cyclic sequence
// of distinct consecutive vertices.
func convexOracle(pts []exact.P) bool {
	// drop consecutive duplicates cyclically
	var d []exact.P
	for _, p := range pts {
		if len(d) == 0 || d[len(d)-1] != p {
			d = append(d, p)
		}
	}
	for len(d) > 1 && d[0] == d[len(d)-1] {
		d = d[:len(d)-1]
	}
	n := len(d)
	if n < 3 {
		return true
	}
	pos, neg := false, false
	for i := 0; i < n; i++ {
		switch exact.Orient(d[i], d[(i+1)%n], d[(i+2)%n]) {
		case 1:
			pos = true
		case -1:
			neg = true
		}
	}
	return !(pos && neg)
}

// c18Pts renders the lattice points; where the mask says so a zero ordinate is written as -0, which is the
// same number: a closing vertex (-0,0) repeats a first vertex (0,0).
func c18Pts(c c18Case) []geometry.Point {
	pts := adapt.Pts(c.Pts, c.Enc.Scale)
	for i := range pts {
		if c.NegZero>>(uint(i)%64)&1 == 1 {
			if pts[i].X == 0 {
				pts[i].X = math.Copysign(0, -1)
			}
			if pts[i].Y == 0 {
				pts[i].Y = math.Copysign(0, -1)
			}
		}
	}
	return pts
}

func c18Series(c c18Case) geometry.Series {
	pts := c18Pts(c)
	defer adapt.Scribble(pts) // the series keeps its own copy of the caller's slice
	if c.Closed {
		return geometry.NewPoly(pts, nil, c.Enc.Opts()).Exterior
	}
	return geometry.NewLine(pts, c.Enc.Opts())
}

// c18Check verifies the series as constructed and again after Move: a moved series is a series,
// and a translation by lattice amounts changes neither the segment rule nor convexity nor winding.
func c18Check(c c18Case) fw.Outcome {
	s := c18Series(c)
	o := c18Verify(c, s)
	if o.Fail != "" {
		return o
	}
	if c.Closed {
		// the polygon-level accessor must report its exterior's flag
		if p := geometry.NewPoly(c18Pts(c), nil, c.Enc.Opts()); p.Clockwise() != s.Clockwise() {
			return fw.Failf(o.Label, "Poly.Clockwise() = %v but its exterior ring %v reports %v", p.Clockwise(), c.Pts, s.Clockwise())
		}
	}
	moved := c
	moved.Pts = make([]exact.P, len(c.Pts))
	for i, p := range c.Pts {
		moved.Pts[i] = exact.P{X: p.X + 3, Y: p.Y - 5}
	}
	dx, dy := adapt.F(3, c.Enc.Scale), adapt.F(-5, c.Enc.Scale)
	var ms geometry.Series
	if c.Closed {
		ms = geometry.NewPoly(c18Pts(c), nil, c.Enc.Opts()).Move(dx, dy).Exterior
	} else {
		ms = geometry.NewLine(c18Pts(c), c.Enc.Opts()).Move(dx, dy)
	}
	if om := c18Verify(moved, ms); om.Fail != "" {
		om.Fail = "after Move(3,-5 lattice units) of the series built from " + fmt.Sprint(c.Pts) + ": " + om.Fail
		return om
	}
	// a move so far that the sums round (2^53 lattice units): vertices may merge, so the moved series is
	// judged against the positions it reports itself - flags carried over from the source would be stale
	if c.Enc.Scale < 900 && c.Enc.Scale > -1000 && len(c.Pts) > 0 && farFromOrigin(c.Pts) < 1<<22 {
		big := adapt.F(1<<53, c.Enc.Scale)
		var fs geometry.Series
		if c.Closed {
			fs = geometry.NewPoly(c18Pts(c), nil, c.Enc.Opts()).Move(big, big).Exterior
		} else {
			fs = geometry.NewLine(c18Pts(c), c.Enc.Opts()).Move(big, big)
		}
		far := c
		far.Pts = make([]exact.P, 0, len(c.Pts))
		okPts := fs.NumPoints() == len(c.Pts)
		for i := 0; okPts && i < fs.NumPoints(); i++ {
			q := fs.PointAt(i)
			x, y := math.Ldexp(q.X, -c.Enc.Scale), math.Ldexp(q.Y, -c.Enc.Scale)
			if x != math.Trunc(x) || y != math.Trunc(y) || math.Abs(x) > 1<<54 || math.Abs(y) > 1<<54 {
				okPts = false
				break
			}
			far.Pts = append(far.Pts, exact.P{X: int64(x), Y: int64(y)})
		}
		if !okPts {
			return fw.Failf(o.Label, "after Move(2^53, 2^53 lattice units) the series reports %d positions (source %d) or positions off the lattice; source %v", fs.NumPoints(), len(c.Pts), c.Pts)
		}
		if om := c18Verify(far, fs); om.Fail != "" {
			om.Fail = "after Move(2^53,2^53 lattice units) of the series built from " + fmt.Sprint(c.Pts) + " (judged against the positions the moved series reports): " + om.Fail
			return om
		}
	}
	return o
}

// farFromOrigin is the largest absolute ordinate of the sequence.
func farFromOrigin(pts []exact.P) int64 {
	var m int64
	for _, p := range pts {
		m = max(m, abs64(p.X), abs64(p.Y))
	}
	return m
}

func c18Verify(c c18Case, s geometry.Series) fw.Outcome {
	n := len(c.Pts)
	// the integer oracle multiplies coordinate differences: they must stay below 2^30 (the generators
	// keep them below 2^22; shrink candidates may not)
	for i := 1; i < n; i++ {
		if d := c.Pts[i].X - c.Pts[0].X; d > 1<<30 || d < -(1<<30) {
			return fw.Outcome{Label: "outside the oracle's domain", Skip: true}
		}
		if d := c.Pts[i].Y - c.Pts[0].Y; d > 1<<30 || d < -(1<<30) {
			return fw.Outcome{Label: "outside the oracle's domain", Skip: true}
		}
	}
	var want []exact.Seg
	if c.Closed {
		want = exact.RingEdges(c.Pts)
	} else {
		want = exact.LineEdges(c.Pts)
	}
	form := "open"
	if c.Closed {
		form = "closed-implicit"
		if n >= 2 && c.Pts[0] == c.Pts[n-1] {
			form = "closed-repeated"
		}
	}
	if got := s.NumPoints(); got != n {
		return fw.Failf(form, "NumPoints = %d, want %d for %v", got, n, c.Pts)
	}
	for i := 0; i < n; i++ {
		if got := s.PointAt(i); got != adapt.Pt(c.Pts[i], c.Enc.Scale) {
			return fw.Failf(form, "PointAt(%d) = %v, want %v", i, got, c.Pts[i])
		}
	}
	if got := s.NumSegments(); got != len(want) {
		return fw.Failf(form, "NumSegments = %d, statement's rule gives %d for %s %v", got, len(want), form, c.Pts)
	}
	for i, w := range want {
		if got := s.SegmentAt(i); got != adapt.Seg(w, c.Enc.Scale) {
			return fw.Failf(form, "SegmentAt(%d) = %v, statement's rule gives %v for %s %v", i, got, w, form, c.Pts)
		}
	}
	wantEmpty := n < 2 || (c.Closed && n < 3)
	if got := s.Empty(); got != wantEmpty {
		return fw.Failf(form, "Empty = %v, want %v for %s %v", got, wantEmpty, form, c.Pts)
	}
	if !c.Closed || n < 3 {
		return fw.OK(form+"/segments-only", n >= 2)
	}
	ring := exact.Unclose(c.Pts)
	wantConvex := convexOracle(ring)
	area2 := exact.Area2(ring)
	wantCW := area2 < 0
	// classification
	reflexAtSeam, collinear, dup := false, false, false
	m := len(ring)
	sign := 0
	if area2 > 0 {
		sign = 1
	} else if area2 < 0 {
		sign = -1
	}
	for i := 0; i < m; i++ {
		a, b, cc := ring[(i+m-1)%m], ring[i], ring[(i+1)%m]
		if a == b || b == cc {
			dup = true
			continue
		}
		o := exact.Orient(a, b, cc)
		if o == 0 {
			collinear = true
		} else if sign != 0 && o != sign && (i == 0 || i == m-1) {
			reflexAtSeam = true
		}
	}
	label := form
	if wantConvex {
		label += "/convex"
	} else {
		label += "/concave"
	}
	switch {
	case reflexAtSeam:
		label += "/reflex-at-seam"
	case dup:
		label += "/duplicate-vertex"
	case collinear:
		label += "/collinear-vertex"
	}
	nt := !wantConvex || collinear || dup
	if got := s.Convex(); got != wantConvex {
		return rangeKnown("C18", c.Enc.Scale, fw.Failf(label, "Convex() = %v, exact %v for %s ring %v (scale 2^%d)", got, wantConvex, form, c.Pts, c.Enc.Scale))
	}
	if got := s.Clockwise(); got != wantCW {
		return rangeKnown("C18", c.Enc.Scale, fw.Failf(label, "Clockwise() = %v, exact %v (twice the signed area = %d) for %s ring %v (scale 2^%d)", got, wantCW, area2, form, c.Pts, c.Enc.Scale))
	}
	return fw.OK(label, nt)
}

func c18Shrink(c c18Case) []c18Case {
	var out []c18Case
	for i := range c.Pts {
		if len(c.Pts) <= 1 {
			break
		}
		q := append(append([]exact.P{}, c.Pts[:i]...), c.Pts[i+1:]...)
		out = append(out, c18Case{Pts: q, Closed: c.Closed, Enc: c.Enc, NegZero: c.NegZero})
	}
	if c.Enc.Scale != 0 || c.Enc.IndexKind != 0 {
		out = append(out, c18Case{Pts: c.Pts, Closed: c.Closed})
	}
	for i, p := range c.Pts {
		for _, h := range []exact.P{{X: p.X / 2, Y: p.Y}, {X: p.X, Y: p.Y / 2}} {
			if h != p {
				q := append([]exact.P{}, c.Pts...)
				q[i] = h
				out = append(out, c18Case{Pts: q, Closed: c.Closed, Enc: c.Enc, NegZero: c.NegZero})
			}
		}
	}
	return out
}

func genEnc(t *rapid.T, n int) adapt.Enc {
	e := adapt.Enc{Scale: genScaleX(t), IndexKind: rapid.IntRange(0, 2).Draw(t, "ikind")}
	e.MinPoints = rapid.SampledFrom([]int{0, 1, n, n + 1, 64}).Draw(t, "minpoints")
	return e
}

// genVertexSeq draws an arbitrary vertex sequence with duplicates and collinear runs.
func genVertexSeq(t *rapid.T, maxLen int) []exact.P {
	var n int
	if rapid.IntRange(0, 9).Draw(t, "len_m") == 0 {
		n = rapid.IntRange(0, maxLen).Draw(t, "len")
	} else {
		n = rapid.IntRange(0, 12).Draw(t, "len")
	}
	small := rapid.IntRange(0, 2).Draw(t, "small")
	pts := make([]exact.P, 0, n+1)
	for len(pts) < n {
		var p exact.P
		m := rapid.IntRange(0, 9).Draw(t, "vm")
		switch {
		case m == 0 && len(pts) > 0: // duplicate of an earlier vertex
			p = pts[rapid.IntRange(0, len(pts)-1).Draw(t, "dup")]
		case m == 1 && len(pts) > 1: // collinear continuation
			a, b := pts[len(pts)-2], pts[len(pts)-1]
			k := int64(rapid.IntRange(-1, 3).Draw(t, "k"))
			p = clampP(exact.P{X: b.X + k*(b.X-a.X), Y: b.Y + k*(b.Y-a.Y)})
		case small > 0:
			p = exact.P{X: int64(rapid.IntRange(-5, 5).Draw(t, "x")), Y: int64(rapid.IntRange(-5, 5).Draw(t, "y"))}
		default:
			p = genP(t, "v")
		}
		pts = append(pts, p)
	}
	return pts
}

func c18Gen(t *rapid.T) c18Case {
	pts := genVertexSeq(t, 300)
	if len(pts) > 0 {
		// rotate the start vertex
		r := rapid.IntRange(0, len(pts)-1).Draw(t, "rot")
		pts = append(append([]exact.P{}, pts[r:]...), pts[:r]...)
	}
	closed := rapid.IntRange(0, 3).Draw(t, "closed") > 0
	if closed && len(pts) > 0 && rapid.Bool().Draw(t, "repeat") {
		pts = append(pts, pts[0])
	}
	enc := genEnc(t, len(pts))
	if rapid.IntRange(0, 5).Draw(t, "faraway") == 0 {
		// the same ring far from the origin (still exactly representable): convexity, winding and the
		// segment rule are translation invariant, absolute ordinates must not leak into them
		enc.Scale = 0
		off := []int64{1 << 30, 1 << 40, 1 << 50, (1 << 52) - (1 << 21), 1 << 52, (1 << 53) - (1 << 22), -(1 << 30), -(1 << 45), -((1 << 52) - (1 << 21)), -(1 << 52), 0}
		tx := rapid.SampledFrom(off).Draw(t, "tx")
		ty := rapid.SampledFrom(off).Draw(t, "ty")
		for i := range pts {
			pts[i] = exact.P{X: pts[i].X + tx, Y: pts[i].Y + ty}
		}
	}
	c := c18Case{Pts: pts, Closed: closed, Enc: enc}
	if rapid.IntRange(0, 3).Draw(t, "negzero_m") == 0 {
		c.NegZero = rapid.Uint64().Draw(t, "negzero")
	}
	return c
}

func c18Enum(tier string, yield func(c18Case) bool) {
	type spec struct {
		n      int64
		maxLen int
	}
	specs := []spec{{3, 5}, {4, 4}}
	if tier == "thorough" {
		specs = []spec{{3, 6}, {4, 5}, {5, 4}}
	}
	for _, sp := range specs {
		lat := latticePoints(sp.n)
		for l := 0; l <= sp.maxLen; l++ {
			idx := make([]int, l)
			for {
				pts := make([]exact.P, l)
				for i, k := range idx {
					pts[i] = lat[k]
				}
				if !yield(c18Case{Pts: pts, Closed: true}) {
					return
				}
				if !yield(c18Case{Pts: pts, Closed: false}) {
					return
				}
				if l >= 1 {
					cl := append(append([]exact.P{}, pts...), pts[0])
					// the closing vertex written with -0 where the first has 0: still the same point
					if (pts[0].X == 0 || pts[0].Y == 0) && !yield(c18Case{Pts: cl, Closed: true, NegZero: 1 << (uint(l) % 64)}) {
						return
					}
					if !yield(c18Case{Pts: cl, Closed: true}) {
						return
					}
				}
				// next tuple
				i := l - 1
				for i >= 0 {
					idx[i]++
					if idx[i] < len(lat) {
						break
					}
					idx[i] = 0
					i--
				}
				if i < 0 {
					break
				}
			}
		}
	}
}

func c18Subs() []fw.Sub {
	return []fw.Sub{fw.Prop[c18Case]{
		Name:       "ring-attributes",
		Exhaustive: "all vertex sequences of length 0..5 on the 3x3 lattice and 0..4 on 4x4 (thorough: 0..6 on 3x3, 0..5 on 4x4, 0..4 on 5x5), each as closed ring without / with repeated closing vertex and as open series",
		Enum:       c18Enum,
		Checks: func(tier string) int {
			if tier == "thorough" {
				return 400000
			}
			return 40000
		},
		Gen:    c18Gen,
		Check:  c18Check,
		Shrink: c18Shrink,
	}}
}

func TestC18(t *testing.T) { fw.Main(t, "C18", c18Subs(), nil) }

var _ = fmt.Sprint
