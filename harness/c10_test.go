package harness

// C10 — collections answer as the composition of their children, indexed or not (DESIGN.md §4 C10).

import (
	"fmt"
	"math"
	"testing"

	"github.com/tidwall/geojson"
	"github.com/tidwall/geojson/geometry"
	"pgregory.net/rapid"
	"verifharness/fw"
	"verifharness/kf"
	"verifharness/sphere"
)

type c10Case struct {
	Coll     objSpec `json:"collection"`
	Probe    objSpec `json:"probe"`
	ViaParse bool    `json:"via_parse"`
	IndexCh  int     `json:"index_children"` // for the Parse route: -1 = count, -2 = count+1
	Query    [4]int  `json:"query"`          // minx, miny, maxx, maxy
	Stop     int     `json:"stop"`
}

// node is the reference view of an object: structure from Children()/Base(), leaves decided by the library.
type node struct {
	obj      geojson.Object
	coll     bool // one of the five collection kinds
	feature  bool
	children []*node
	base     *node
}

func mkNode(o geojson.Object) *node {
	n := &node{obj: o}
	switch x := o.(type) {
	case *geojson.Feature:
		n.feature = true
		n.base = mkNode(x.Base())
	case geojson.Collection:
		n.coll = true
		for _, c := range x.Children() {
			n.children = append(n.children, mkNode(c))
		}
	}
	return n
}

// empty by the statement's rule, computed on the model tree
func (n *node) empty() bool {
	switch {
	case n.coll:
		for _, c := range n.children {
			if !c.empty() {
				return false
			}
		}
		return true
	case n.feature:
		return n.base.empty()
	}
	switch x := n.obj.(type) {
	case *geojson.LineString:
		return x.Base().NumPoints() < 2
	case *geojson.Polygon:
		return x.Base().Exterior == nil || x.Base().Exterior.NumPoints() < 3
	}
	return false
}

func (n *node) rect() (geometry.Rect, bool) {
	switch {
	case n.coll:
		var r geometry.Rect
		have := false
		for _, c := range n.children {
			if c.empty() {
				continue
			}
			cr, ok := c.rect()
			if !ok {
				continue
			}
			if !have {
				r, have = cr, true
				continue
			}
			r.Min.X, r.Min.Y = math.Min(r.Min.X, cr.Min.X), math.Min(r.Min.Y, cr.Min.Y)
			r.Max.X, r.Max.Y = math.Max(r.Max.X, cr.Max.X), math.Max(r.Max.Y, cr.Max.Y)
		}
		return r, have
	case n.feature:
		return n.base.rect()
	}
	if n.empty() {
		return geometry.Rect{}, false
	}
	return n.obj.Rect(), true
}

func (n *node) numPoints() int {
	switch {
	case n.coll:
		s := 0
		for _, c := range n.children {
			s += c.numPoints()
		}
		return s
	case n.feature:
		return n.base.numPoints()
	}
	return n.obj.NumPoints()
}

// parts: X itself unless X is one of the five collection kinds (fine = also look through Features).
func (n *node) parts(fine bool, out []*node) []*node {
	if n.coll {
		for _, c := range n.children {
			out = c.parts(fine, out)
		}
		return out
	}
	if fine && n.feature && (n.base.coll || n.base.feature) {
		return n.base.parts(fine, out)
	}
	return append(out, n)
}

func (n *node) leaf() *node {
	for n.feature {
		n = n.base
	}
	return n
}

// refIntersects: some non-empty leaf of a intersects some non-empty leaf of b.
func refIntersects(a, b *node) bool {
	for _, x := range a.parts(true, nil) {
		if x.empty() {
			continue
		}
		for _, y := range b.parts(true, nil) {
			if y.empty() {
				continue
			}
			if x.leaf().obj.Intersects(y.leaf().obj) {
				return true
			}
		}
	}
	return false
}

// refContains mirrors the statement: a collection contains X iff X has a non-empty part and every
// non-empty part is contained by some child; a leaf contains a collection iff the collection is
// non-empty and every child is within the leaf (an empty child is within nothing).
func refContains(a, p *node, fine bool) bool {
	switch {
	case a.coll:
		if a.empty() {
			return false
		}
		any := false
		for _, part := range p.parts(fine, nil) {
			if part.empty() {
				continue
			}
			found := false
			for _, c := range a.children {
				if c.empty() {
					continue
				}
				if refContains(c, part, fine) {
					found = true
					break
				}
			}
			if !found {
				return false
			}
			any = true
		}
		return any
	case a.feature:
		return refContains(a.base, p, fine)
	}
	// a is a leaf
	switch {
	case p.coll:
		if p.empty() {
			return false
		}
		for _, c := range p.children {
			if !refContains(a, c, fine) {
				return false
			}
		}
		return true
	case p.feature:
		return refContains(a, p.base, fine)
	}
	if a.empty() || p.empty() {
		return false
	}
	return a.obj.Contains(p.obj)
}

func isLeafKind(k string) bool {
	switch k {
	case "Point", "PointZ", "SimplePoint", "LineString", "Polygon", "Rect":
		return true
	}
	return false
}

func hasFeatureOverCollection(n *node) bool {
	if n.feature && (n.base.coll || n.base.feature) {
		return true
	}
	for _, c := range n.children {
		if hasFeatureOverCollection(c) {
			return true
		}
	}
	if n.base != nil {
		return hasFeatureOverCollection(n.base)
	}
	return false
}

func c10Check(c c10Case) fw.Outcome {
	collObj := c.Coll.build()
	if c.ViaParse {
		nch := len(collObj.(geojson.Collection).Children())
		ic := c.IndexCh
		switch ic {
		case -1:
			ic = nch
		case -2:
			ic = nch + 1
		}
		o, err := geojson.Parse(collObj.JSON(), &geojson.ParseOptions{IndexChildren: ic, IndexGeometry: 64, IndexGeometryKind: geometry.QuadTree})
		if err != nil {
			return fw.Outcome{Label: "not-parseable", Skip: true} // short rings / one-point lines cannot go through Parse
		}
		collObj = o
	}
	probeObj := c.Probe.build()
	cn, pn := mkNode(collObj), mkNode(probeObj)
	cl := collObj.(geojson.Collection)
	label := fmt.Sprintf("%s/indexed:%v/probe:%s", c.Coll.Kind, cl.Indexed(), c.Probe.Kind)
	// structure: children keep their order
	if want := c.Coll.build().JSON(); collObj.JSON() != want {
		return fw.Failf(label, "JSON (children order) differs: %s vs %s", collObj.JSON(), want)
	}
	// Empty, Rect, NumPoints
	if got, want := collObj.Empty(), cn.empty(); got != want {
		return fw.Failf(label, "Empty() = %v, all-children-empty gives %v; %s", got, want, collObj.JSON())
	}
	if want, ok := cn.rect(); ok {
		if got := collObj.Rect(); got != want {
			return fw.Failf(label, "Rect() = %v, union of the non-empty children is %v; %s", got, want, collObj.JSON())
		}
	}
	if got, want := collObj.NumPoints(), cn.numPoints(); got != want {
		return fw.Failf(label, "NumPoints() = %d, sum over children %d; %s", got, want, collObj.JSON())
	}
	// Search: exactly the non-empty children whose rectangle meets the query, once each
	q := geometry.Rect{Min: geometry.Point{X: float64(c.Query[0]), Y: float64(c.Query[1])}, Max: geometry.Point{X: float64(c.Query[2]), Y: float64(c.Query[3])}}
	want := map[geojson.Object]int{}
	hits := 0
	for _, ch := range cn.children {
		if ch.empty() {
			continue
		}
		if r, ok := ch.rect(); ok && r.IntersectsRect(q) {
			want[ch.obj]++
			hits++
		}
	}
	got := map[geojson.Object]int{}
	cl.Search(q, func(child geojson.Object) bool { got[child]++; return true })
	if len(got) != len(want) {
		return fw.Failf(label, "Search(%v) reported %d distinct children, expected %d; %s", q, len(got), len(want), collObj.JSON())
	}
	for o, n := range want {
		if got[o] != n {
			return fw.Failf(label, "Search(%v) reported child %s %d times, expected %d", q, o.JSON(), got[o], n)
		}
	}
	if c.Stop > 0 {
		calls := 0
		cl.Search(q, func(child geojson.Object) bool { calls++; return calls < c.Stop })
		if w := min(c.Stop, hits); calls != w {
			return fw.Failf(label, "Search callback returned false on call %d but %d calls were made (%d hits)", c.Stop, calls, hits)
		}
	}
	// the same search once more, after the early-stopped one: a search result does not depend on what was asked before
	{
		again := map[geojson.Object]int{}
		cl.Search(q, func(child geojson.Object) bool { again[child]++; return true })
		if len(again) != len(got) {
			return fw.Failf(label, "Search(%v) reported %d distinct children, and %d when repeated after an early-stopped search; %s", q, len(got), len(again), collObj.JSON())
		}
		for o, n := range got {
			if again[o] != n {
				return fw.Failf(label, "Search(%v) repeated after an early-stopped search reports child %s %d times, before %d", q, o.JSON(), again[o], n)
			}
		}
	}
	// predicates against the probe
	nt := len(cn.children) >= 2 && !cn.empty()
	if r1, ok1 := cn.rect(); ok1 {
		if r2, ok2 := pn.rect(); !ok2 || !r1.IntersectsRect(r2) {
			nt = false
		}
	}
	type rel struct {
		name     string
		got      bool
		coarse   bool
		fineSame bool
	}
	wi := refIntersects(cn, pn)
	rels := []rel{
		{"collection.Intersects(probe)", collObj.Intersects(probeObj), wi, true},
		{"probe.Intersects(collection)", probeObj.Intersects(collObj), wi, true},
	}
	cc, cf := refContains(cn, pn, false), refContains(cn, pn, true)
	rels = append(rels, rel{"collection.Contains(probe)", collObj.Contains(probeObj), cc, cc == cf},
		rel{"probe.Within(collection)", probeObj.Within(collObj), cc, cc == cf})
	wc, wf := refContains(pn, cn, false), refContains(pn, cn, true)
	rels = append(rels, rel{"collection.Within(probe)", collObj.Within(probeObj), wc, wc == wf},
		rel{"probe.Contains(collection)", probeObj.Contains(collObj), wc, wc == wf})
	for _, r := range rels {
		if !r.fineSame {
			label += "/readings-differ"
			continue // a Feature wrapping a collection: the two readings of "part" disagree, unasserted
		}
		if r.got != r.coarse && kf.Enabled("C10", "KF-CIRCLE-APPROX") && (c10CircleSliver(&c.Probe, &c.Coll) || c10CircleSliver(&c.Coll, &c.Probe)) {
			return fw.Outcome{Label: label, Known: "KF-CIRCLE-APPROX", Fail: "known"}
		}
		if r.got != r.coarse {
			return fw.Failf(label, "%s = %v, composition of the children gives %v; collection %s probe %s", r.name, r.got, r.coarse, collObj.JSON(), probeObj.JSON())
		}
	}
	return fw.OK(label, nt)
}

// genC10Leaf: leaf objects on a small lattice, valid enough for Parse when wanted.
func genC10Leaf(t *rapid.T, parseable bool) objSpec {
	lp := func(label string) fpt {
		if rapid.IntRange(0, 15).Draw(t, label+"_far") == 0 {
			// outside the lon/lat range (nothing forbids it without RequireValid): beyond any "whole world" rectangle
			return fpt{F(rapid.SampledFrom([]int{250, -300, 20}).Draw(t, label+"fx")), F(rapid.SampledFrom([]int{20, 95, -120}).Draw(t, label+"fy"))}
		}
		if rapid.IntRange(0, 7).Draw(t, label+"_o") == 0 {
			// at or next to the origin, where the zero rectangle of an empty or not yet seeded box lives
			return fpt{F(rapid.IntRange(0, 1).Draw(t, label+"ox")), F(rapid.IntRange(0, 1).Draw(t, label+"oy"))}
		}
		return fpt{F(rapid.IntRange(3, 11).Draw(t, label+"x")), F(rapid.IntRange(3, 11).Draw(t, label+"y"))}
	}
	kinds := []string{"Point", "LineString", "Polygon", "Polygon", "Rect", "SimplePoint", "Circle"}
	if parseable {
		kinds = []string{"Point", "LineString", "Polygon", "Polygon"}
	}
	s := objSpec{Kind: rapid.SampledFrom(kinds).Draw(t, "leafkind")}
	switch s.Kind {
	case "Circle": // one position, a rectangle several lattice units wide: found by a search that misses its centre
		// (with 50 km the disc holds the centre only, with 160 km the four neighbours as well, both with the rim well away
		// from every lattice point; with 400 km the lattice offset (2,3) falls into the 0.12 % sliver between the disc and
		// its 64-gon, where the library answers by distance for a point as the direct operand and by polygon through a
		// collection - the listed finding KF-CIRCLE-APPROX, modelled by c10CircleSliver)
		s.Pts = []fpt{{F(rapid.IntRange(3, 11).Draw(t, "clx")), F(rapid.IntRange(3, 11).Draw(t, "cly"))}}
		s.Radius = F(rapid.SampledFrom([]float64{0, 50000, 160000, 400000}).Draw(t, "clr"))
		s.Steps = 64
	case "Point", "SimplePoint":
		s.Pts = []fpt{lp("p")}
	case "LineString":
		lo := 0
		if parseable {
			lo = 2
		}
		n := rapid.IntRange(lo, 4).Draw(t, "ln")
		for i := 0; i < n; i++ {
			s.Pts = append(s.Pts, lp("l"))
		}
	case "Polygon":
		// axis-aligned boxes and triangles (valid, so leaf x leaf answers are meaningful), sometimes degenerate
		a, b := lp("a"), lp("b")
		x0, y0, x1, y1 := math.Min(float64(a.X), float64(b.X)), math.Min(float64(a.Y), float64(b.Y)), math.Max(float64(a.X), float64(b.X)), math.Max(float64(a.Y), float64(b.Y))
		if x0 == x1 {
			x1++
		}
		if y0 == y1 {
			y1++
		}
		ring := []fpt{{F(x0), F(y0)}, {F(x1), F(y0)}, {F(x1), F(y1)}, {F(x0), F(y1)}, {F(x0), F(y0)}}
		if rapid.Bool().Draw(t, "tri") {
			ring = []fpt{{F(x0), F(y0)}, {F(x1), F(y0)}, {F(x0), F(y1)}, {F(x0), F(y0)}}
		}
		if !parseable && rapid.IntRange(0, 9).Draw(t, "shortring") == 0 {
			ring = ring[:rapid.IntRange(0, 2).Draw(t, "rn")]
		}
		s.Rings = [][]fpt{ring}
	case "Rect":
		a, b := lp("a"), lp("b")
		s.Pts = []fpt{{F(math.Min(float64(a.X), float64(b.X))), F(math.Min(float64(a.Y), float64(b.Y)))}, {F(math.Max(float64(a.X), float64(b.X))), F(math.Max(float64(a.Y), float64(b.Y)))}}
	}
	return s
}

func genC10Coll(t *rapid.T, depth int, parseable bool, maxChildren int) objSpec {
	kinds := []string{"MultiPoint", "MultiLineString", "MultiPolygon", "GeometryCollection", "FeatureCollection"}
	s := objSpec{Kind: rapid.SampledFrom(kinds).Draw(t, "collkind")}
	n := rapid.IntRange(0, 5).Draw(t, "nchildren")
	if maxChildren > 60 && rapid.IntRange(0, 7).Draw(t, "many") == 0 {
		n = rapid.IntRange(60, maxChildren).Draw(t, "nmany") // straddle the default index threshold 64
	}
	dup := rapid.IntRange(0, 3).Draw(t, "dups") == 0
	for i := 0; i < n; i++ {
		var leaf objSpec
		switch s.Kind {
		case "MultiPoint":
			leaf = genC10Leaf(t, parseable)
			if len(s.Pts) > 0 && dup && rapid.Bool().Draw(t, "dup") {
				s.Pts = append(s.Pts, s.Pts[0])
				continue
			}
			p := fpt{F(rapid.SampledFrom([]int{0, 0, 1, 3, 4, 5, 6, 7, 8, 9, 10, 11}).Draw(t, "mx")), F(rapid.SampledFrom([]int{0, 0, 1, 3, 4, 5, 6, 7, 8, 9, 10, 11}).Draw(t, "my"))}
			s.Pts = append(s.Pts, p)
			_ = leaf
		case "MultiLineString":
			lo := 0
			if parseable {
				lo = 2
			}
			var l []fpt
			for k := rapid.IntRange(lo, 4).Draw(t, "mln"); k > 0; k-- {
				l = append(l, fpt{F(rapid.IntRange(3, 11).Draw(t, "mlx")), F(rapid.IntRange(3, 11).Draw(t, "mly"))})
			}
			s.Rings = append(s.Rings, l)
		case "MultiPolygon":
			for {
				leaf = genC10Leaf(t, parseable)
				if leaf.Kind == "Polygon" {
					break
				}
			}
			if !parseable && rapid.IntRange(0, 11).Draw(t, "nilpoly") == 0 {
				leaf = objSpec{Kind: "Polygon", NilPoly: true}
			}
			s.Children = append(s.Children, leaf)
		default:
			var ch objSpec
			m := rapid.IntRange(0, 9).Draw(t, "childmode")
			switch {
			case m == 0 && depth > 0:
				ch = genC10Coll(t, depth-1, parseable, 8)
			case m == 1 && len(s.Children) > 0 && dup:
				ch = s.Children[rapid.IntRange(0, len(s.Children)-1).Draw(t, "dupidx")]
			case m == 2 && depth > 0:
				ch = objSpec{Kind: "Feature", Children: []objSpec{genC10Coll(t, depth-1, parseable, 4)}}
			default:
				ch = genC10Leaf(t, parseable)
				if ch.Kind == "Rect" || ch.Kind == "SimplePoint" {
					if parseable {
						ch.Kind = "Point"
						ch.Pts = ch.Pts[:1]
					}
				}
			}
			if s.Kind == "FeatureCollection" && ch.Kind != "Feature" && rapid.IntRange(0, 3).Draw(t, "wrap") > 0 {
				ch = objSpec{Kind: "Feature", Children: []objSpec{ch}}
			}
			s.Children = append(s.Children, ch)
		}
	}
	return s
}

func c10Gen(t *rapid.T) c10Case {
	c := c10Case{ViaParse: rapid.Bool().Draw(t, "viaparse")}
	c.Coll = genC10Coll(t, 2, c.ViaParse, 80)
	c.IndexCh = rapid.SampledFrom([]int{0, 1, -1, -2, 64, 2}).Draw(t, "indexch")
	switch rapid.IntRange(0, 3).Draw(t, "probekind") {
	case 0:
		c.Probe = genC10Coll(t, 1, false, 6)
	case 1:
		c.Probe = objSpec{Kind: "Feature", Children: []objSpec{genC10Leaf(t, false)}}
		if rapid.IntRange(0, 2).Draw(t, "featcoll") == 0 {
			c.Probe = objSpec{Kind: "Feature", Children: []objSpec{genC10Coll(t, 1, false, 4)}}
		}
	default:
		c.Probe = genC10Leaf(t, false)
	}
	if rapid.IntRange(0, 11).Draw(t, "onespot") == 0 {
		// every non-empty child at one position P, an empty child among them, and the probe is the point P itself:
		// the collection's box equals the probe's, yet a collection with an empty child is within nothing
		P := fpt{F(rapid.IntRange(0, 11).Draw(t, "spx")), F(rapid.IntRange(0, 11).Draw(t, "spy"))}
		kids := []objSpec{{Kind: "Point", Pts: []fpt{P}}}
		for i := rapid.IntRange(0, 2).Draw(t, "spn"); i > 0; i-- {
			kids = append(kids, objSpec{Kind: "Point", Pts: []fpt{P}})
		}
		if rapid.IntRange(0, 3).Draw(t, "spempty") > 0 {
			e := objSpec{Kind: rapid.SampledFrom([]string{"MultiPoint", "GeometryCollection"}).Draw(t, "spek")}
			at := rapid.IntRange(0, len(kids)).Draw(t, "spat")
			kids = append(kids[:at], append([]objSpec{e}, kids[at:]...)...)
		}
		c.Coll = objSpec{Kind: "GeometryCollection", Children: kids}
		c.Probe = objSpec{Kind: rapid.SampledFrom([]string{"Point", "SimplePoint"}).Draw(t, "spk"), Pts: []fpt{P}}
		c.Query = [4]int{int(P.X), int(P.Y), int(P.X), int(P.Y)}
		c.Stop = rapid.IntRange(0, 2).Draw(t, "spstop")
		return c
	}
	if rapid.IntRange(0, 5).Draw(t, "circleprobe") == 0 {
		// X may be a Circle: "within X iff non-empty and every child is within X" goes through Circle.Contains
		c.Probe = objSpec{Kind: "Circle", Pts: []fpt{{F(rapid.IntRange(3, 11).Draw(t, "ccx")), F(rapid.IntRange(3, 11).Draw(t, "ccy"))}},
			Radius: F(rapid.SampledFrom([]float64{0, 30000, 120000, 250000, 400000, 700000, 2e6, 2e6, 3e6, 5e6}).Draw(t, "cr")), Steps: 64}
	}
	if c.Probe.Kind == "Circle" && float64(c.Probe.Radius) >= 2e6 && (c.Coll.Kind == "GeometryCollection" || c.Coll.Kind == "FeatureCollection") && rapid.Bool().Draw(t, "deepempty") {
		// a circle that covers every child, and an empty part two levels down: the collection is within the circle
		// exactly when no part at any level is empty
		inner := c.Coll
		if rapid.IntRange(0, 2).Draw(t, "deepemptyadd") > 0 {
			e := objSpec{Kind: rapid.SampledFrom([]string{"MultiPoint", "GeometryCollection"}).Draw(t, "deepemptykind")}
			at := rapid.IntRange(0, len(inner.Children)).Draw(t, "deepemptyat")
			kids := append([]objSpec{}, inner.Children[:at]...)
			kids = append(kids, e)
			inner.Children = append(kids, inner.Children[at:]...)
		}
		outer := []objSpec{inner}
		if rapid.Bool().Draw(t, "deepemptysib") {
			outer = append(outer, objSpec{Kind: "Point", Pts: []fpt{{5, 5}}})
		}
		c.Coll = objSpec{Kind: "GeometryCollection", Children: outer}
	}
	x0, y0 := rapid.IntRange(2, 12).Draw(t, "qx0"), rapid.IntRange(2, 12).Draw(t, "qy0")
	c.Query = [4]int{x0, y0, x0 + rapid.IntRange(0, 5).Draw(t, "qw"), y0 + rapid.IntRange(0, 5).Draw(t, "qh")}
	switch rapid.IntRange(0, 6).Draw(t, "qmode") {
	case 2: // the whole lon/lat range, exactly or generously: children may still lie outside it
		c.Query = rapid.SampledFrom([][4]int{{-180, -90, 180, 90}, {-181, -91, 181, 91}, {-180, -90, 400, 90}}).Draw(t, "qworld")
	case 0: // everything, the origin included: an empty child reports the zero rectangle and must still not be found
		c.Query = [4]int{-100, -100, 100, 100}
	case 1: // a box at the origin reaching into the data
		c.Query = [4]int{rapid.IntRange(-3, 0).Draw(t, "qox"), rapid.IntRange(-3, 0).Draw(t, "qoy"), rapid.IntRange(0, 12).Draw(t, "qow"), rapid.IntRange(0, 12).Draw(t, "qoh")}
	}
	c.Stop = rapid.IntRange(0, 4).Draw(t, "stop")
	return c
}

func c10Subs() []fw.Sub {
	return []fw.Sub{fw.Prop[c10Case]{
		Name: "composition",
		Checks: func(tier string) int {
			if tier == "thorough" {
				return 300000
			}
			return 20000
		},
		Gen: c10Gen, Check: c10Check,
	}}
}

// c10CircleSliver is the input-side model of the listed finding KF-CIRCLE-APPROX as it shows in a composition: some
// point-like part of x (a Point, a SimplePoint, a position of a MultiPoint) lies where a Circle of y answers differently
// by distance (as the direct operand) and by its 64-gon (reached through a collection): inside the disc and outside the
// polygon, or the reverse.
func c10CircleSliver(x, y *objSpec) bool {
	var circles []*objSpec
	var walkC func(o *objSpec)
	walkC = func(o *objSpec) {
		if o.Kind == "Circle" && len(o.Pts) > 0 {
			circles = append(circles, o)
		}
		for i := range o.Children {
			walkC(&o.Children[i])
		}
	}
	walkC(y)
	var pts []fpt
	var walkP func(o *objSpec)
	walkP = func(o *objSpec) {
		switch o.Kind {
		case "Point", "PointZ", "SimplePoint", "MultiPoint":
			pts = append(pts, o.Pts...)
		}
		for i := range o.Children {
			walkP(&o.Children[i])
		}
	}
	walkP(x)
	for _, c := range circles {
		centre := c.Pts[0].g()
		poly := geojson.NewCircle(centre, float64(c.Radius), c.Steps).Polygon()
		for _, p := range pts {
			d := sphere.Distance(centre.Y, centre.X, float64(p.Y), float64(p.X))
			if (d <= float64(c.Radius)) != poly.Contains(geojson.NewPoint(p.g())) {
				return true
			}
		}
	}
	return false
}

func TestC10(t *testing.T) { fw.Main(t, "C10", c10Subs(), nil) }
