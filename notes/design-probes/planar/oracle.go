package main

// Scratch exact oracle (design phase). Integer lattice input, big.Rat for
// derived points. See README.md.

import (
	"math/big"
	"sort"
)

type QP struct{ X, Y *big.Rat }

func qi(x, y int64) QP { return QP{new(big.Rat).SetInt64(x), new(big.Rat).SetInt64(y)} }

type IP struct{ X, Y int64 }

func (p IP) q() QP { return qi(p.X, p.Y) }

type QSeg struct{ A, B QP }

func sub(a, b *big.Rat) *big.Rat { return new(big.Rat).Sub(a, b) }
func mul(a, b *big.Rat) *big.Rat { return new(big.Rat).Mul(a, b) }
func add(a, b *big.Rat) *big.Rat { return new(big.Rat).Add(a, b) }

func orient(a, b, c QP) int {
	l := mul(sub(b.X, a.X), sub(c.Y, a.Y))
	r := mul(sub(b.Y, a.Y), sub(c.X, a.X))
	return l.Cmp(r)
}
func eq(a, b QP) bool { return a.X.Cmp(b.X) == 0 && a.Y.Cmp(b.Y) == 0 }
func between(a, b, c *big.Rat) bool {
	if a.Cmp(b) > 0 {
		a, b = b, a
	}
	return a.Cmp(c) <= 0 && c.Cmp(b) <= 0
}
func onSeg(s QSeg, p QP) bool {
	if orient(s.A, s.B, p) != 0 {
		return false
	}
	return between(s.A.X, s.B.X, p.X) && between(s.A.Y, s.B.Y, p.Y)
}

func ringEdges(pts []IP) []QSeg {
	if len(pts) < 3 {
		return nil
	}
	var out []QSeg
	if pts[0] == pts[len(pts)-1] {
		for i := 0; i < len(pts)-1; i++ {
			out = append(out, QSeg{pts[i].q(), pts[i+1].q()})
		}
	} else {
		for i := 0; i < len(pts); i++ {
			out = append(out, QSeg{pts[i].q(), pts[(i+1)%len(pts)].q()})
		}
	}
	return out
}

// pointInRing returns (odd crossing parity, on boundary) under the half-open
// rule: an endpoint level with the point counts as below it.
func pointInRing(edges []QSeg, p QP) (bool, bool) {
	in := false
	for _, e := range edges {
		if onSeg(e, p) {
			return false, true
		}
		a, b := e.A, e.B
		aBelow := a.Y.Cmp(p.Y) <= 0
		bBelow := b.Y.Cmp(p.Y) <= 0
		if aBelow == bBelow {
			continue
		}
		lo, hi := a, b
		if !aBelow {
			lo, hi = b, a
		}
		if orient(lo, hi, p) > 0 {
			in = !in
		}
	}
	return in, false
}

type Kind int

const (
	KPoint Kind = iota
	KRect
	KLine
	KPoly
)

type Shape struct {
	K     Kind
	P     IP
	Min   IP
	Max   IP
	Line  []IP
	Ext   []IP
	Holes [][]IP
}

func (s *Shape) boundary() []QSeg {
	switch s.K {
	case KPoint:
		return []QSeg{{s.P.q(), s.P.q()}}
	case KRect:
		a, b, c, d := IP{s.Min.X, s.Min.Y}, IP{s.Max.X, s.Min.Y}, IP{s.Max.X, s.Max.Y}, IP{s.Min.X, s.Max.Y}
		return []QSeg{{a.q(), b.q()}, {b.q(), c.q()}, {c.q(), d.q()}, {d.q(), a.q()}}
	case KLine:
		var out []QSeg
		for i := 0; i+1 < len(s.Line); i++ {
			out = append(out, QSeg{s.Line[i].q(), s.Line[i+1].q()})
		}
		return out
	case KPoly:
		out := ringEdges(s.Ext)
		for _, h := range s.Holes {
			out = append(out, ringEdges(h)...)
		}
		return out
	}
	return nil
}

func (s *Shape) member(p QP) bool {
	switch s.K {
	case KPoint:
		return eq(s.P.q(), p)
	case KRect:
		return between(s.Min.q().X, s.Max.q().X, p.X) && between(s.Min.q().Y, s.Max.q().Y, p.Y)
	case KLine:
		for _, e := range s.boundary() {
			if onSeg(e, p) {
				return true
			}
		}
		return false
	case KPoly:
		in, on := pointInRing(ringEdges(s.Ext), p)
		if !in && !on {
			return false
		}
		for _, h := range s.Holes {
			hin, hon := pointInRing(ringEdges(h), p)
			if hin && !hon {
				return false
			}
		}
		return true
	}
	return false
}

func (s *Shape) hasArea() bool {
	switch s.K {
	case KRect:
		return s.Min.X != s.Max.X && s.Min.Y != s.Max.Y
	case KPoly:
		return true
	}
	return false
}

// breaks appends the parameters (along S) of the contacts of S with e.
func breaks(S QSeg, e QSeg, ts []*big.Rat) []*big.Rat {
	dx, dy := sub(S.B.X, S.A.X), sub(S.B.Y, S.A.Y)
	param := func(p QP) *big.Rat {
		if dx.Sign() != 0 {
			return new(big.Rat).Quo(sub(p.X, S.A.X), dx)
		}
		return new(big.Rat).Quo(sub(p.Y, S.A.Y), dy)
	}
	oa, ob := orient(S.A, S.B, e.A), orient(S.A, S.B, e.B)
	if oa == 0 {
		ts = append(ts, param(e.A))
	}
	if ob == 0 {
		ts = append(ts, param(e.B))
	}
	if oa*ob < 0 {
		ex, ey := sub(e.B.X, e.A.X), sub(e.B.Y, e.A.Y)
		den := sub(mul(dx, ey), mul(dy, ex))
		if den.Sign() != 0 {
			wx, wy := sub(e.A.X, S.A.X), sub(e.A.Y, S.A.Y)
			num := sub(mul(wx, ey), mul(wy, ex))
			ts = append(ts, new(big.Rat).Quo(num, den))
		}
	}
	return ts
}

func at(S QSeg, t *big.Rat) QP {
	return QP{add(S.A.X, mul(t, sub(S.B.X, S.A.X))), add(S.A.Y, mul(t, sub(S.B.Y, S.A.Y)))}
}

// segSubset: S is a subset of A; otherwise a witness point of S outside A.
func segSubset(S QSeg, A *Shape) (bool, *QP) {
	if eq(S.A, S.B) {
		if A.member(S.A) {
			return true, nil
		}
		return false, &S.A
	}
	zero, one := new(big.Rat), new(big.Rat).SetInt64(1)
	ts := []*big.Rat{zero, one}
	for _, e := range A.boundary() {
		ts = breaks(S, e, ts)
	}
	var in []*big.Rat
	for _, t := range ts {
		if t.Sign() >= 0 && t.Cmp(one) <= 0 {
			in = append(in, t)
		}
	}
	sort.Slice(in, func(i, j int) bool { return in[i].Cmp(in[j]) < 0 })
	half := big.NewRat(1, 2)
	for i, t := range in {
		p := at(S, t)
		if !A.member(p) {
			return false, &p
		}
		if i+1 < len(in) && in[i+1].Cmp(t) != 0 {
			m := at(S, mul(add(t, in[i+1]), half))
			if !A.member(m) {
				return false, &m
			}
		}
	}
	return true, nil
}

// interiorPoint of a simple ring: midpoint of the first two crossings of a
// scan line that passes through no vertex.
func interiorPoint(pts []IP) QP {
	edges := ringEdges(pts)
	ys := map[int64]bool{}
	for _, p := range pts {
		ys[p.Y] = true
	}
	var yl []int64
	for y := range ys {
		yl = append(yl, y)
	}
	sort.Slice(yl, func(i, j int) bool { return yl[i] < yl[j] })
	y := big.NewRat(yl[0]+yl[1], 2)
	var xs []*big.Rat
	for _, e := range edges {
		if e.A.Y.Cmp(e.B.Y) == 0 {
			continue
		}
		if between(e.A.Y, e.B.Y, y) {
			t := new(big.Rat).Quo(sub(y, e.A.Y), sub(e.B.Y, e.A.Y))
			xs = append(xs, add(e.A.X, mul(t, sub(e.B.X, e.A.X))))
		}
	}
	sort.Slice(xs, func(i, j int) bool { return xs[i].Cmp(xs[j]) < 0 })
	return QP{mul(add(xs[0], xs[1]), big.NewRat(1, 2)), y}
}

func contains(A, B *Shape) (bool, *QP) {
	for _, e := range B.boundary() {
		if ok, w := segSubset(e, A); !ok {
			return false, w
		}
	}
	if B.hasArea() {
		switch A.K {
		case KPoint, KLine:
			return false, nil
		case KPoly:
			for _, h := range A.Holes {
				w := interiorPoint(h)
				if B.member(w) {
					return false, &w
				}
			}
		}
	}
	return true, nil
}

func segInter(a, b QSeg) *QP {
	for _, p := range []QP{a.A, a.B} {
		if onSeg(b, p) {
			return &p
		}
	}
	for _, p := range []QP{b.A, b.B} {
		if onSeg(a, p) {
			return &p
		}
	}
	if eq(a.A, a.B) || eq(b.A, b.B) {
		return nil
	}
	o1, o2 := orient(a.A, a.B, b.A), orient(a.A, a.B, b.B)
	o3, o4 := orient(b.A, b.B, a.A), orient(b.A, b.B, a.B)
	if o1*o2 < 0 && o3*o4 < 0 {
		ts := breaks(a, b, nil)
		p := at(a, ts[len(ts)-1])
		return &p
	}
	return nil
}

func intersects(A, B *Shape) (bool, *QP) {
	ba, bb := A.boundary(), B.boundary()
	var cands []QP
	for _, e := range ba {
		cands = append(cands, e.A, e.B)
	}
	for _, e := range bb {
		cands = append(cands, e.A, e.B)
	}
	for _, e := range ba {
		for _, f := range bb {
			if p := segInter(e, f); p != nil {
				cands = append(cands, *p)
			}
		}
	}
	for i := range cands {
		if A.member(cands[i]) && B.member(cands[i]) {
			return true, &cands[i]
		}
	}
	return false, nil
}
