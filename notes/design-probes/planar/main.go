package main

// Scratch differential driver (design phase). See README.md.

import (
	"fmt"
	"math/rand"
	"os"
	"sort"

	"github.com/tidwall/geojson/geometry"
)

var rng *rand.Rand

const N = 7

func rp() IP { return IP{int64(rng.Intn(N)), int64(rng.Intn(N))} }

func isSimple(pts []IP) bool {
	n := len(pts)
	if n < 3 {
		return false
	}
	seen := map[IP]bool{}
	for _, p := range pts {
		if seen[p] {
			return false
		}
		seen[p] = true
	}
	e := func(i int) QSeg { return QSeg{pts[i%n].q(), pts[(i+1)%n].q()} }
	for i := 0; i < n; i++ {
		a, b, c := pts[i].q(), pts[(i+1)%n].q(), pts[(i+2)%n].q()
		if onSeg(QSeg{a, b}, c) || onSeg(QSeg{b, c}, a) {
			return false
		}
		for j := i + 2; j < n; j++ {
			if i == 0 && j == n-1 {
				continue
			}
			if segInter(e(i), e(j)) != nil {
				return false
			}
		}
	}
	var ar int64
	for i := 0; i < n; i++ {
		p, q := pts[i], pts[(i+1)%n]
		ar += p.X*q.Y - q.X*p.Y
	}
	return ar != 0
}

func genRing(maxn int) []IP {
	for {
		n := 3 + rng.Intn(maxn-2)
		pts := make([]IP, n)
		for i := range pts {
			pts[i] = rp()
		}
		if isSimple(pts) {
			if rng.Intn(3) == 0 {
				return pts // unclosed encoding
			}
			return append(pts, pts[0])
		}
	}
}

func genPoly() *Shape {
	for {
		s := &Shape{K: KPoly, Ext: genRing(8)}
		if rng.Intn(2) == 0 {
			return s
		}
		for try := 0; try < 50; try++ {
			h := genRing(4)
			ok := true
			ee := ringEdges(s.Ext)
			for _, p := range h {
				in, on := pointInRing(ee, p.q())
				if !in || on {
					ok = false
				}
			}
			if ok {
				for _, he := range ringEdges(h) {
					for _, e := range ee {
						if segInter(he, e) != nil {
							ok = false
						}
					}
				}
			}
			if ok {
				s.Holes = [][]IP{h}
				return s
			}
		}
	}
}

func genShape() *Shape {
	switch rng.Intn(4) {
	case 0:
		return &Shape{K: KPoint, P: rp()}
	case 1:
		a, b := rp(), rp()
		if a.X > b.X {
			a.X, b.X = b.X, a.X
		}
		if a.Y > b.Y {
			a.Y, b.Y = b.Y, a.Y
		}
		return &Shape{K: KRect, Min: a, Max: b}
	case 2:
		n := 2 + rng.Intn(4)
		l := make([]IP, n)
		for i := range l {
			l[i] = rp()
		}
		return &Shape{K: KLine, Line: l}
	}
	return genPoly()
}

func gp(p IP) geometry.Point { return geometry.Point{X: float64(p.X), Y: float64(p.Y)} }
func gps(ps []IP) []geometry.Point {
	o := make([]geometry.Point, len(ps))
	for i, p := range ps {
		o[i] = gp(p)
	}
	return o
}

func (s *Shape) geom() geometry.Geometry {
	opts := &geometry.IndexOptions{Kind: geometry.IndexKind(rng.Intn(3)), MinPoints: rng.Intn(2)}
	switch s.K {
	case KPoint:
		return gp(s.P)
	case KRect:
		return geometry.Rect{Min: gp(s.Min), Max: gp(s.Max)}
	case KLine:
		return geometry.NewLine(gps(s.Line), opts)
	}
	var hs [][]geometry.Point
	for _, h := range s.Holes {
		hs = append(hs, gps(h))
	}
	return geometry.NewPoly(gps(s.Ext), hs, opts)
}

func (s *Shape) String() string {
	switch s.K {
	case KPoint:
		return fmt.Sprintf("Point%v", s.P)
	case KRect:
		return fmt.Sprintf("Rect%v-%v", s.Min, s.Max)
	case KLine:
		return fmt.Sprintf("Line%v", s.Line)
	}
	return fmt.Sprintf("Poly%v holes%v", s.Ext, s.Holes)
}

func call(op string, a geometry.Geometry, b geometry.Geometry) bool {
	c := op == "contains"
	switch v := b.(type) {
	case geometry.Point:
		if c {
			return a.ContainsPoint(v)
		}
		return a.IntersectsPoint(v)
	case geometry.Rect:
		if c {
			return a.ContainsRect(v)
		}
		return a.IntersectsRect(v)
	case *geometry.Line:
		if c {
			return a.ContainsLine(v)
		}
		return a.IntersectsLine(v)
	case *geometry.Poly:
		if c {
			return a.ContainsPoly(v)
		}
		return a.IntersectsPoly(v)
	}
	panic("x")
}

var kn = []string{"pt", "rect", "line", "poly"}

// NOTE: on the unpatched tree Line.ContainsLine can hang (F1); set SKIPLL=1
// to skip line-in-line/rect/poly containment there.
func main() {
	var seed int64 = 1
	fmt.Sscan(os.Getenv("SEED"), &seed)
	skipLL := os.Getenv("SKIPLL") != ""
	rng = rand.New(rand.NewSource(seed))
	type key struct {
		op, a, b string
		code     bool
		holes    bool
	}
	counts := map[key]int{}
	tot := map[string]int{}
	ex := map[key][]string{}
	iters := 100000
	if len(os.Args) > 1 {
		fmt.Sscan(os.Args[1], &iters)
	}
	for it := 0; it < iters; it++ {
		A, B := genShape(), genShape()
		ga, gb := A.geom(), B.geom()
		for _, op := range []string{"contains", "intersects"} {
			if skipLL && op == "contains" && A.K == KLine && B.K != KPoint {
				continue
			}
			var want bool
			var w *QP
			if op == "contains" {
				want, w = contains(A, B)
			} else {
				want, w = intersects(A, B)
			}
			got := call(op, ga, gb)
			if op == "intersects" && call(op, gb, ga) != got {
				fmt.Println("ASYM", A, B)
			}
			k := key{op, kn[A.K], kn[B.K], got, len(A.Holes) > 0}
			tot[op+" "+kn[A.K]+" "+kn[B.K]]++
			if got != want {
				counts[k]++
				if len(ex[k]) < 5 {
					ws := ""
					if w != nil {
						ws = fmt.Sprintf(" witness(%s,%s)", w.X.RatString(), w.Y.RatString())
					}
					ex[k] = append(ex[k], fmt.Sprintf("A=%v B=%v%s", A, B, ws))
				}
			}
		}
	}
	var ks []key
	for k := range counts {
		ks = append(ks, k)
	}
	sort.Slice(ks, func(i, j int) bool { return fmt.Sprint(ks[i]) < fmt.Sprint(ks[j]) })
	for _, k := range ks {
		fmt.Printf("%s %s %s code=%v Aholes=%v: %d / %d\n", k.op, k.a, k.b, k.code, k.holes, counts[k], tot[k.op+" "+k.a+" "+k.b])
		for _, e := range ex[k] {
			fmt.Println("    ", e)
		}
	}
	fmt.Println("done", iters)
}
